
// ------------------------------------------------------------------------------------------------
// Verification harnesses for property C15 (typed path parameters).
// This module is appended by /verif/bin/check to the *scratch copy* of
// runtime/pavex/src/request/path/deserializer.rs; it is never part of /repo.
// It drives the real `PathDeserializer` exactly the way `PathParams::extract` does
// (`T::deserialize(PathDeserializer::new(&decoded_params))`), through real serde derives.
// ------------------------------------------------------------------------------------------------
#[cfg(kani)]
mod verif_harness {
    use super::*;
    use serde::Deserialize;

    fn fmt_stub(_a: std::fmt::Arguments<'_>) -> String {
        String::new()
    }

    /// A symbolic ASCII string of symbolic length `0..=N`.
    fn sym_ascii<const N: usize>(buf: &mut [u8; N]) -> &str {
        let len: usize = kani::any();
        kani::assume(len <= N);
        let raw: [u8; N] = kani::any();
        let mut i = 0;
        while i < N {
            kani::assume(raw[i] < 128);
            buf[i] = raw[i];
            i += 1;
        }
        unsafe { std::str::from_utf8_unchecked(&buf[..len]) }
    }

    /// Reference reader for Rust's documented integer syntax: optional sign (`+`, and `-` for signed
    /// targets), one or more decimal digits, value within the target's range.
    fn ref_int(s: &[u8], signed: bool, min: i64, max: i64) -> Option<i64> {
        if s.is_empty() {
            return None;
        }
        let (neg, start) = match s[0] {
            b'+' => (false, 1),
            b'-' if signed => (true, 1),
            _ => (false, 0),
        };
        if start == s.len() {
            return None;
        }
        let mut acc: i64 = 0;
        let mut i = start;
        while i < s.len() {
            let c = s[i];
            if !(b'0'..=b'9').contains(&c) {
                return None;
            }
            acc = acc * 10 + (c - b'0') as i64;
            i += 1;
        }
        let v = if neg { -acc } else { acc };
        if v < min || v > max { None } else { Some(v) }
    }

    /// The same reader over i128, for targets wider than 32 bits.
    fn ref_int_wide(s: &[u8], signed: bool, min: i128, max: i128) -> Option<i128> {
        if s.is_empty() {
            return None;
        }
        let (neg, start) = match s[0] {
            b'+' => (false, 1),
            b'-' if signed => (true, 1),
            _ => (false, 0),
        };
        if start == s.len() {
            return None;
        }
        let mut acc: i128 = 0;
        let mut i = start;
        while i < s.len() {
            let c = s[i];
            if !(b'0'..=b'9').contains(&c) {
                return None;
            }
            acc = acc * 10 + (c - b'0') as i128;
            i += 1;
        }
        let v = if neg { -acc } else { acc };
        if v < min || v > max { None } else { Some(v) }
    }

    fn is_parse_error_for(e: &PathDeserializationError, key: &str, ty: &str) -> bool {
        match e.kind() {
            ErrorKind::ParseErrorAtKey { key: k, expected_type, .. } => k == key && *expected_type == ty,
            _ => false,
        }
    }

    macro_rules! int_value_law {
        ($name:ident, $ty:ty, $tyname:literal, $signed:expr, $n:literal) => {
            fn $name() {
                #[derive(Deserialize)]
                struct One {
                    a: $ty,
                }
                let mut buf = [0u8; $n];
                let s = sym_ascii::<$n>(&mut buf);
                let params: [(&str, Cow<'_, str>); 1] = [("a", Cow::Borrowed(s))];
                let r = One::deserialize(PathDeserializer::new(&params));
                let want = ref_int(s.as_bytes(), $signed, <$ty>::MIN as i64, <$ty>::MAX as i64);
                match (&r, want) {
                    (Ok(o), Some(v)) => assert!(o.a as i64 == v, "the field holds a number other than the one the client wrote"),
                    (Err(e), None) => assert!(is_parse_error_for(e, "a", $tyname), "malformed number: wrong error kind"),
                    (Ok(_), None) => assert!(false, "a malformed number was accepted"),
                    (Err(_), Some(_)) => assert!(false, "a well-formed number was rejected"),
                }
                kani::cover!(r.is_err(), "some input is rejected");
                kani::cover!(matches!(&r, Ok(o) if o.a as i64 == <$ty>::MAX as i64), "the largest value is accepted");
                std::mem::forget(r);
            }
        };
    }

    macro_rules! wide_value_law {
        ($name:ident, $ty:ty, $tyname:literal, $signed:expr, $n:literal) => {
            fn $name() {
                #[derive(Deserialize)]
                struct One {
                    a: $ty,
                }
                let mut buf = [0u8; $n];
                let s = sym_ascii::<$n>(&mut buf);
                let params: [(&str, Cow<'_, str>); 1] = [("a", Cow::Borrowed(s))];
                let r = One::deserialize(PathDeserializer::new(&params));
                let want = ref_int_wide(s.as_bytes(), $signed, <$ty>::MIN as i128, <$ty>::MAX as i128);
                match (&r, want) {
                    (Ok(o), Some(v)) => assert!(o.a as i128 == v, "the field holds a number other than the one the client wrote"),
                    (Err(e), None) => assert!(is_parse_error_for(e, "a", $tyname), "malformed number: wrong error kind"),
                    (Ok(_), None) => assert!(false, "a malformed number was accepted"),
                    (Err(_), Some(_)) => assert!(false, "a well-formed number was rejected"),
                }
                kani::cover!(r.is_err(), "some input is rejected");
                kani::cover!(matches!(&r, Ok(o) if o.a as i128 == <$ty>::MAX as i128), "the largest value is accepted");
                std::mem::forget(r);
            }
        };
    }
    wide_value_law!(law_u64, u64, "u64", false, 20);
    wide_value_law!(law_i64, i64, "i64", true, 20);

    int_value_law!(law_u8, u8, "u8", false, 3);
    int_value_law!(law_i8, i8, "i8", true, 4);
    int_value_law!(law_u16, u16, "u16", false, 5);
    int_value_law!(law_i16, i16, "i16", true, 6);
    int_value_law!(law_u32, u32, "u32", false, 10);
    int_value_law!(law_i32, i32, "i32", true, 11);

    // @tier quick
    // @obligation every ASCII value of 0..=3 bytes put into a `u8` field is read as exactly the number the reference reader assigns to it, or rejected with ParseErrorAtKey{key,"u8"}; no panic
    // @bounds 1 parameter, value length 0..=3 bytes, each byte < 128 (covers the whole u8 range incl. 255/256 boundary)
    // @functions PathDeserializer::deserialize_struct, MapDeserializer::next_key_seed, MapDeserializer::next_value_seed, KeyDeserializer::deserialize_identifier, ValueDeserializer::deserialize_u8 (parse_value!)
    #[kani::proof]
    #[kani::unwind(5)]
    #[kani::stub(std::fmt::format, fmt_stub)]
    fn c15_value_u8() {
        law_u8()
    }

    // @tier quick
    // @obligation every ASCII value of 0..=4 bytes put into an `i8` field: exact value or ParseErrorAtKey{key,"i8"}; no panic
    // @bounds 1 parameter, value length 0..=4 bytes (covers -128..=127 and both overflow boundaries)
    // @functions ValueDeserializer::deserialize_i8 (parse_value!), MapDeserializer::*, PathDeserializer::deserialize_struct
    #[kani::proof]
    #[kani::unwind(6)]
    #[kani::stub(std::fmt::format, fmt_stub)]
    fn c15_value_i8() {
        law_i8()
    }

    // @tier quick
    // @obligation every ASCII value of 0..=5 bytes put into a `u16` field: exact value or ParseErrorAtKey{key,"u16"}; no panic
    // @bounds 1 parameter, value length 0..=5 bytes (covers 65535/65536)
    // @functions ValueDeserializer::deserialize_u16 (parse_value!), MapDeserializer::*, PathDeserializer::deserialize_struct
    #[kani::proof]
    #[kani::unwind(7)]
    #[kani::stub(std::fmt::format, fmt_stub)]
    fn c15_value_u16() {
        law_u16()
    }

    // @tier quick
    // @obligation every ASCII value of 0..=6 bytes put into an `i16` field: exact value or ParseErrorAtKey{key,"i16"}; no panic
    // @bounds 1 parameter, value length 0..=6 bytes
    // @functions ValueDeserializer::deserialize_i16 (parse_value!)
    // @timeout 1800
    #[kani::proof]
    #[kani::unwind(8)]
    #[kani::stub(std::fmt::format, fmt_stub)]
    fn c15_value_i16() {
        law_i16()
    }

    // @tier quick
    // @obligation every ASCII value of 0..=10 bytes put into a `u32` field: exact value or ParseErrorAtKey{key,"u32"}; no panic (extreme numbers: 4294967295/4294967296)
    // @bounds 1 parameter, value length 0..=10 bytes
    // @functions ValueDeserializer::deserialize_u32 (parse_value!)
    // @timeout 3000
    #[kani::proof]
    #[kani::unwind(12)]
    #[kani::stub(std::fmt::format, fmt_stub)]
    fn c15_value_u32() {
        law_u32()
    }

    // @tier thorough
    // @obligation every ASCII value of 0..=11 bytes put into an `i32` field: exact value or ParseErrorAtKey{key,"i32"}; no panic
    // @bounds 1 parameter, value length 0..=11 bytes
    // @functions ValueDeserializer::deserialize_i32 (parse_value!)
    // @timeout 3000
    #[kani::proof]
    #[kani::unwind(13)]
    #[kani::stub(std::fmt::format, fmt_stub)]
    fn c15_value_i32() {
        law_i32()
    }

    // @tier quick
    // @obligation every ASCII value of 0..=20 bytes put into a `u64` field: exact value or ParseErrorAtKey{key,"u64"}; no panic (extreme numbers: 18446744073709551615 / ...616)
    // @bounds 1 parameter, value length 0..=20 bytes
    // @functions ValueDeserializer::deserialize_u64 (parse_value!)
    // @timeout 2400
    // @mem 30
    // @weight 250
    #[kani::proof]
    #[kani::unwind(22)]
    #[kani::stub(std::fmt::format, fmt_stub)]
    fn c15_value_u64() {
        law_u64()
    }

    // @tier thorough
    // @exploratory 1
    // @obligation every ASCII value of 0..=20 bytes put into an `i64` field: exact value or ParseErrorAtKey{key,"i64"}; no panic (both overflow boundaries) - exploratory: did not finish in 40 min when first tried (the unsigned twin takes 3 min); a time-out is recorded and changes nothing
    // @bounds 1 parameter, value length 0..=20 bytes
    // @functions ValueDeserializer::deserialize_i64 (parse_value!)
    // @timeout 7200
    // @mem 30
    #[kani::proof]
    #[kani::unwind(22)]
    #[kani::stub(std::fmt::format, fmt_stub)]
    fn c15_value_i64() {
        law_i64()
    }

    // @tier thorough
    // @obligation every ASCII value of 0..=39 bytes put into a `u128` field: exact value or ParseErrorAtKey{key,"u128"}; no panic (340282366920938463463374607431768211455 and one more)
    // @bounds 1 parameter, value length 0..=39 bytes; the reference reader uses checked u128 arithmetic
    // @functions ValueDeserializer::deserialize_u128 (parse_value!)
    // @timeout 7200
    // @mem 40
    #[kani::proof]
    #[kani::unwind(41)]
    #[kani::stub(std::fmt::format, fmt_stub)]
    fn c15_value_u128() {
        #[derive(Deserialize)]
        struct One {
            a: u128,
        }
        let mut buf = [0u8; 39];
        let s = sym_ascii::<39>(&mut buf);
        let params: [(&str, Cow<'_, str>); 1] = [("a", Cow::Borrowed(s))];
        let r = One::deserialize(PathDeserializer::new(&params));
        let b = s.as_bytes();
        let want: Option<u128> = (|| {
            if b.is_empty() {
                return None;
            }
            let start = if b[0] == b'+' { 1 } else { 0 };
            if start == b.len() {
                return None;
            }
            let mut acc: u128 = 0;
            let mut i = start;
            while i < b.len() {
                let c = b[i];
                if !(b'0'..=b'9').contains(&c) {
                    return None;
                }
                acc = acc.checked_mul(10)?.checked_add((c - b'0') as u128)?;
                i += 1;
            }
            Some(acc)
        })();
        match (&r, want) {
            (Ok(o), Some(v)) => assert!(o.a == v, "the field holds a number other than the one the client wrote"),
            (Err(e), None) => assert!(is_parse_error_for(e, "a", "u128"), "malformed number: wrong error kind"),
            (Ok(_), None) => assert!(false, "a malformed number was accepted"),
            (Err(_), Some(_)) => assert!(false, "a well-formed number was rejected"),
        }
        kani::cover!(matches!(&r, Ok(o) if o.a == u128::MAX), "u128::MAX is accepted");
        kani::cover!(r.is_err(), "some input is rejected");
        std::mem::forget(r);
    }

    // @tier quick
    // @obligation a `bool` field is true for "true", false for "false", and every other ASCII value of 0..=5 bytes is rejected with ParseErrorAtKey{key,"bool"}
    // @bounds 1 parameter, value length 0..=5 bytes
    // @functions ValueDeserializer::deserialize_bool (parse_value!)
    #[kani::proof]
    #[kani::unwind(7)]
    #[kani::stub(std::fmt::format, fmt_stub)]
    fn c15_value_bool() {
        #[derive(Deserialize)]
        struct One {
            a: bool,
        }
        let mut buf = [0u8; 5];
        let s = sym_ascii::<5>(&mut buf);
        let params: [(&str, Cow<'_, str>); 1] = [("a", Cow::Borrowed(s))];
        let r = One::deserialize(PathDeserializer::new(&params));
        let b = s.as_bytes();
        let want = if b.len() == 4 && b[0] == b't' && b[1] == b'r' && b[2] == b'u' && b[3] == b'e' {
            Some(true)
        } else if b.len() == 5 && b[0] == b'f' && b[1] == b'a' && b[2] == b'l' && b[3] == b's' && b[4] == b'e' {
            Some(false)
        } else {
            None
        };
        match (&r, want) {
            (Ok(o), Some(v)) => assert!(o.a == v, "the field holds the other boolean"),
            (Err(e), None) => assert!(is_parse_error_for(e, "a", "bool"), "malformed bool: wrong error kind"),
            _ => assert!(false, "extraction and the reference reader disagree on a bool"),
        }
        kani::cover!(matches!(&r, Ok(o) if o.a), "true is accepted");
        kani::cover!(matches!(&r, Ok(o) if !o.a), "false is accepted");
        kani::cover!(r.is_err(), "something is rejected");
        std::mem::forget(r);
    }

    // @tier quick
    // @obligation a `char` field receives the single ASCII character the client wrote; empty and multi-character values are rejected with ParseErrorAtKey{key,"char"}
    // @bounds 1 parameter, value length 0..=3 ASCII bytes
    // @functions ValueDeserializer::deserialize_char (parse_value!)
    #[kani::proof]
    #[kani::unwind(5)]
    #[kani::stub(std::fmt::format, fmt_stub)]
    fn c15_value_char() {
        #[derive(Deserialize)]
        struct One {
            a: char,
        }
        let mut buf = [0u8; 3];
        let s = sym_ascii::<3>(&mut buf);
        let params: [(&str, Cow<'_, str>); 1] = [("a", Cow::Borrowed(s))];
        let r = One::deserialize(PathDeserializer::new(&params));
        match &r {
            Ok(o) => assert!(s.len() == 1 && o.a as u32 == s.as_bytes()[0] as u32, "wrong character"),
            Err(e) => assert!(s.len() != 1 && is_parse_error_for(e, "a", "char"), "a single character was rejected"),
        }
        kani::cover!(r.is_ok(), "a char is accepted");
        kani::cover!(r.is_err(), "a non-char is rejected");
        std::mem::forget(r);
    }

    fn same_bytes(a: &[u8], b: &[u8]) -> bool {
        if a.len() != b.len() {
            return false;
        }
        let mut i = 0;
        while i < a.len() {
            if a[i] != b[i] {
                return false;
            }
            i += 1;
        }
        true
    }

    // @tier quick
    // @obligation `String` and borrowed `&str` fields receive byte-for-byte the (already percent-decoded) value, for both the borrowed and the owned representation of the decoded value; never an error
    // @bounds 2 parameters, value length 0..=3 ASCII bytes, Cow::Borrowed / Cow::Owned chosen symbolically for the String field
    // @functions ValueDeserializer::deserialize_string (parse_value!), ValueDeserializer::deserialize_str
    #[kani::proof]
    #[kani::unwind(5)]
    #[kani::stub(std::fmt::format, fmt_stub)]
    fn c15_value_strings() {
        #[derive(Deserialize)]
        struct Two<'a> {
            a: String,
            b: &'a str,
        }
        let mut buf1 = [0u8; 3];
        let mut buf2 = [0u8; 3];
        let s1 = sym_ascii::<3>(&mut buf1);
        let s2 = sym_ascii::<3>(&mut buf2);
        let owned: bool = kani::any();
        let v1: Cow<'_, str> = if owned { Cow::Owned(s1.to_owned()) } else { Cow::Borrowed(s1) };
        let params: [(&str, Cow<'_, str>); 2] = [("a", v1), ("b", Cow::Borrowed(s2))];
        let r = Two::deserialize(PathDeserializer::new(&params));
        match &r {
            Ok(o) => {
                assert!(same_bytes(o.a.as_bytes(), s1.as_bytes()), "String field differs from what the client sent");
                assert!(same_bytes(o.b.as_bytes(), s2.as_bytes()), "&str field differs from what the client sent");
            }
            Err(_) => assert!(false, "a string value was rejected"),
        }
        kani::cover!(owned && s1.len() == 3, "owned, longest");
        kani::cover!(!owned && s2.len() == 0, "borrowed, empty");
        std::mem::forget(r);
        std::mem::forget(params);
    }

    // @tier quick
    // @obligation an `Option<u8>` field is `Some(n)` under the u8 value law (a present parameter is never turned into None, a malformed one is an error, not None)
    // @bounds 1 parameter, value length 0..=3 ASCII bytes
    // @functions ValueDeserializer::deserialize_option, ValueDeserializer::deserialize_u8
    #[kani::proof]
    #[kani::unwind(5)]
    #[kani::stub(std::fmt::format, fmt_stub)]
    fn c15_value_option() {
        #[derive(Deserialize)]
        struct One {
            a: Option<u8>,
        }
        let mut buf = [0u8; 3];
        let s = sym_ascii::<3>(&mut buf);
        let params: [(&str, Cow<'_, str>); 1] = [("a", Cow::Borrowed(s))];
        let r = One::deserialize(PathDeserializer::new(&params));
        let want = ref_int(s.as_bytes(), false, 0, 255);
        match (&r, want) {
            (Ok(o), Some(v)) => assert!(o.a == Some(v as u8), "Option field: wrong value or None for a present parameter"),
            (Err(_), None) => {}
            _ => assert!(false, "extraction and the reference reader disagree on Option<u8>"),
        }
        kani::cover!(matches!(&r, Ok(o) if o.a == Some(255)), "Some(255)");
        kani::cover!(r.is_err(), "rejected");
        std::mem::forget(r);
    }

    #[derive(Deserialize, PartialEq, Eq, Clone, Copy)]
    enum Pick {
        A,
        B,
        #[serde(rename = "c")]
        C,
    }

    // @tier quick
    // @obligation a unit-only enum field is the variant whose (renamed) name equals the value; every other ASCII value of 0..=2 bytes is an error
    // @bounds 1 parameter, value length 0..=2 ASCII bytes, enum {A, B, C as "c"}
    // @functions ValueDeserializer::deserialize_enum, EnumDeserializer::variant_seed, UnitVariant::unit_variant, KeyDeserializer::deserialize_identifier
    #[kani::proof]
    #[kani::unwind(5)]
    #[kani::stub(std::fmt::format, fmt_stub)]
    fn c15_value_enum() {
        #[derive(Deserialize)]
        struct One {
            a: Pick,
        }
        let mut buf = [0u8; 2];
        let s = sym_ascii::<2>(&mut buf);
        let params: [(&str, Cow<'_, str>); 1] = [("a", Cow::Borrowed(s))];
        let r = One::deserialize(PathDeserializer::new(&params));
        let b = s.as_bytes();
        let want = if b.len() == 1 {
            match b[0] {
                b'A' => Some(Pick::A),
                b'B' => Some(Pick::B),
                b'c' => Some(Pick::C),
                _ => None,
            }
        } else {
            None
        };
        match (&r, want) {
            (Ok(o), Some(v)) => assert!(o.a == v, "wrong enum variant"),
            (Err(_), None) => {}
            _ => assert!(false, "extraction and the reference reader disagree on an enum"),
        }
        kani::cover!(matches!(&r, Ok(o) if o.a == Pick::C), "renamed variant accepted");
        kani::cover!(r.is_err(), "unknown variant rejected");
        std::mem::forget(r);
    }

    fn two_digits(buf: &mut [u8; 2]) -> (&str, u8) {
        let d0: u8 = kani::any();
        let d1: u8 = kani::any();
        kani::assume(d0 <= 9 && d1 <= 9);
        buf[0] = b'0' + d0;
        buf[1] = b'0' + d1;
        (unsafe { std::str::from_utf8_unchecked(&buf[..]) }, d0 * 10 + d1)
    }

    // @tier quick
    // @obligation parameters are matched to fields by name: whatever order the router hands them over in, field `a` receives the value filed under "a" and field `b` the one under "b"
    // @bounds 2 parameters in symbolic order, two symbolic 2-digit values
    // @functions PathDeserializer::deserialize_struct, MapDeserializer::next_key_seed, MapDeserializer::next_value_seed, KeyDeserializer::deserialize_identifier, ValueDeserializer::deserialize_u8
    #[kani::proof]
    #[kani::unwind(4)]
    #[kani::stub(std::fmt::format, fmt_stub)]
    fn c15_names_two_fields() {
        #[derive(Deserialize)]
        struct Two {
            a: u8,
            b: u8,
        }
        let mut b1 = [0u8; 2];
        let mut b2 = [0u8; 2];
        let (s1, v1) = two_digits(&mut b1);
        let (s2, v2) = two_digits(&mut b2);
        let swapped: bool = kani::any();
        let params: [(&str, Cow<'_, str>); 2] = if swapped {
            [("b", Cow::Borrowed(s2)), ("a", Cow::Borrowed(s1))]
        } else {
            [("a", Cow::Borrowed(s1)), ("b", Cow::Borrowed(s2))]
        };
        let r = Two::deserialize(PathDeserializer::new(&params));
        match &r {
            Ok(t) => {
                assert!(t.a == v1, "field `a` did not receive the value filed under `a`");
                assert!(t.b == v2, "field `b` did not receive the value filed under `b`");
            }
            Err(_) => assert!(false, "two well-formed parameters were rejected"),
        }
        kani::cover!(swapped && r.is_ok() && v1 != v2, "reversed order, distinct values");
        std::mem::forget(r);
    }

    // @tier quick
    // @obligation a route parameter that the target struct does not mention is skipped wherever it sits, and does not disturb the value of the fields that are there
    // @bounds 3 parameters (one unknown to the struct, at a symbolic position), two symbolic 2-digit values
    // @functions MapDeserializer::next_key_seed, MapDeserializer::next_value_seed, ValueDeserializer::deserialize_ignored_any
    #[kani::proof]
    #[kani::unwind(5)]
    #[kani::stub(std::fmt::format, fmt_stub)]
    fn c15_names_extra_parameter() {
        #[derive(Deserialize)]
        struct Two {
            a: u8,
            b: u8,
        }
        let mut b1 = [0u8; 2];
        let mut b2 = [0u8; 2];
        let mut b3 = [0u8; 2];
        let (s1, v1) = two_digits(&mut b1);
        let (s2, v2) = two_digits(&mut b2);
        let (s3, _) = two_digits(&mut b3);
        let pos: u8 = kani::any();
        kani::assume(pos < 3);
        let a = ("a", Cow::Borrowed(s1));
        let b = ("b", Cow::Borrowed(s2));
        let x = ("x", Cow::Borrowed(s3));
        let params: [(&str, Cow<'_, str>); 3] = match pos {
            0 => [x, a, b],
            1 => [a, x, b],
            _ => [a, b, x],
        };
        let r = Two::deserialize(PathDeserializer::new(&params));
        match &r {
            Ok(t) => assert!(t.a == v1 && t.b == v2, "an unrelated parameter changed the value of a field"),
            Err(_) => assert!(false, "an unrelated parameter made extraction fail"),
        }
        kani::cover!(pos == 1 && r.is_ok(), "extra parameter in the middle");
        std::mem::forget(r);
    }

    // @tier quick
    // @obligation a field with no matching parameter is an error (never a default), and a parameter present twice is an error (never first-wins or last-wins)
    // @bounds 1..=2 parameters, shape chosen symbolically among {only a, only b, a twice, a and b}
    // @functions MapDeserializer::next_key_seed, PathDeserializationError::custom
    // @weight 220
    #[kani::proof]
    #[kani::unwind(4)]
    #[kani::stub(std::fmt::format, fmt_stub)]
    fn c15_shape_missing_and_duplicate() {
        #[derive(Deserialize)]
        struct Two {
            a: u8,
            b: u8,
        }
        let mut b1 = [0u8; 2];
        let mut b2 = [0u8; 2];
        let (s1, v1) = two_digits(&mut b1);
        let (s2, v2) = two_digits(&mut b2);
        let shape: u8 = kani::any();
        kani::assume(shape < 4);
        let one_a: [(&str, Cow<'_, str>); 1] = [("a", Cow::Borrowed(s1))];
        let one_b: [(&str, Cow<'_, str>); 1] = [("b", Cow::Borrowed(s2))];
        let dup: [(&str, Cow<'_, str>); 2] = [("a", Cow::Borrowed(s1)), ("a", Cow::Borrowed(s2))];
        let both: [(&str, Cow<'_, str>); 2] = [("a", Cow::Borrowed(s1)), ("b", Cow::Borrowed(s2))];
        let params: &[(&str, Cow<'_, str>)] = match shape {
            0 => &one_a,
            1 => &one_b,
            2 => &dup,
            _ => &both,
        };
        let r = Two::deserialize(PathDeserializer::new(params));
        match &r {
            Ok(t) => assert!(shape == 3 && t.a == v1 && t.b == v2, "a missing or duplicated parameter was papered over"),
            Err(e) => assert!(shape != 3 && matches!(e.kind(), ErrorKind::Message(_)), "wrong outcome for a missing/duplicated parameter"),
        }
        kani::cover!(shape == 0 && r.is_err(), "missing field rejected");
        kani::cover!(shape == 2 && r.is_err(), "duplicate field rejected");
        kani::cover!(shape == 3 && r.is_ok(), "complete set accepted");
        std::mem::forget(r);
    }

    // @tier quick
    // @obligation unsupported targets end in ErrorKind::UnsupportedType, never in a value: a bare scalar, a tuple, a sequence at the top level; a tuple, a sequence or a nested struct as a field; and a newtype struct, a tuple struct or an enum at the top level never receive a value out of two parameters (they have no field names to match by)
    // @bounds 1 parameter with a symbolic 2-digit value; target shape chosen symbolically among 9
    // @functions PathDeserializer::{deserialize_u8,deserialize_tuple,deserialize_seq}, ValueDeserializer::{deserialize_tuple,deserialize_seq,deserialize_struct}
    #[kani::proof]
    #[kani::unwind(4)]
    #[kani::stub(std::fmt::format, fmt_stub)]
    fn c15_shape_unsupported_targets() {
        #[derive(Deserialize)]
        struct Inner {
            #[allow(dead_code)]
            z: u8,
        }
        #[derive(Deserialize)]
        struct FTuple {
            #[allow(dead_code)]
            a: (u8, u8),
        }
        #[derive(Deserialize)]
        struct FSeq {
            #[allow(dead_code)]
            a: [u8; 2],
        }
        #[derive(Deserialize)]
        struct FNested {
            #[allow(dead_code)]
            a: Inner,
        }
        let mut b1 = [0u8; 2];
        let (s1, _) = two_digits(&mut b1);
        let params: [(&str, Cow<'_, str>); 1] = [("a", Cow::Borrowed(s1))];
        #[derive(Deserialize)]
        struct TopNewtype(#[allow(dead_code)] u8);
        #[derive(Deserialize)]
        struct TopTupleStruct(#[allow(dead_code)] u8, #[allow(dead_code)] u8);
        #[derive(Deserialize)]
        enum TopEnum {
            #[allow(dead_code)]
            A,
        }
        let shape: u8 = kani::any();
        kani::assume(shape < 9);
        let d = PathDeserializer::new(&params);
        let params2: [(&str, Cow<'_, str>); 2] = [("b", Cow::Borrowed("7")), ("a", Cow::Borrowed(s1))];
        let d2 = PathDeserializer::new(&params2);
        let kind_ok = |e: &PathDeserializationError| matches!(e.kind(), ErrorKind::UnsupportedType { .. });
        let ok = match shape {
            0 => match u8::deserialize(d) { Err(e) => { let k = kind_ok(&e); std::mem::forget(e); k } Ok(_) => false },
            1 => match <(u8, u8)>::deserialize(d) { Err(e) => { let k = kind_ok(&e); std::mem::forget(e); k } Ok(_) => false },
            2 => match <[u8; 1]>::deserialize(d) { Err(e) => { let k = kind_ok(&e); std::mem::forget(e); k } Ok(_) => false },
            3 => match FTuple::deserialize(d) { Err(e) => { let k = kind_ok(&e); std::mem::forget(e); k } Ok(_) => false },
            4 => match FSeq::deserialize(d) { Err(e) => { let k = kind_ok(&e); std::mem::forget(e); k } Ok(_) => false },
            5 => match FNested::deserialize(d) { Err(e) => { let k = kind_ok(&e); std::mem::forget(e); k } Ok(_) => false },
            // the guide lists these top-level targets as unsupported too. Asserted with TWO parameters and
            // only as "never a value": such a target has no field names, so any value it received would
            // have been picked by position, not "matched to fields by name" (a future, well-defined
            // support for the one-parameter case is not an alarm)
            6 => match TopNewtype::deserialize(d2) { Err(e) => { std::mem::forget(e); true } Ok(_) => false },
            7 => match TopTupleStruct::deserialize(d2) { Err(e) => { std::mem::forget(e); true } Ok(_) => false },
            _ => match TopEnum::deserialize(d2) { Err(e) => { std::mem::forget(e); true } Ok(_) => false },
        };
        assert!(ok, "an unsupported target produced a value or the wrong error kind");
        kani::cover!(shape == 5, "nested struct");
        kani::cover!(shape == 0, "bare scalar");
        kani::cover!(shape == 6, "top-level newtype");
    }

    // @tier quick
    // @obligation name matching with three fields of different types under all 6 orders of arrival
    // @bounds 3 parameters, order chosen symbolically among the 6 permutations; u8 / bool / char values symbolic
    // @functions MapDeserializer::next_key_seed, MapDeserializer::next_value_seed, ValueDeserializer::{deserialize_u8,deserialize_bool,deserialize_char}
    // @timeout 1800
    #[kani::proof]
    #[kani::unwind(7)]
    #[kani::stub(std::fmt::format, fmt_stub)]
    fn c15_names_three_fields_all_orders() {
        #[derive(Deserialize)]
        struct Three {
            a: u8,
            b: bool,
            c: char,
        }
        let mut b1 = [0u8; 2];
        let (s1, v1) = two_digits(&mut b1);
        let vb: bool = kani::any();
        let sb: &str = if vb { "true" } else { "false" };
        let cc: u8 = kani::any();
        kani::assume(cc < 128);
        let cbuf = [cc];
        let sc = unsafe { std::str::from_utf8_unchecked(&cbuf[..]) };
        let a = ("a", Cow::Borrowed(s1));
        let b = ("b", Cow::Borrowed(sb));
        let c = ("c", Cow::Borrowed(sc));
        let perm: u8 = kani::any();
        kani::assume(perm < 6);
        let params: [(&str, Cow<'_, str>); 3] = match perm {
            0 => [a, b, c],
            1 => [a, c, b],
            2 => [b, a, c],
            3 => [b, c, a],
            4 => [c, a, b],
            _ => [c, b, a],
        };
        let r = Three::deserialize(PathDeserializer::new(&params));
        match &r {
            Ok(t) => assert!(t.a == v1 && t.b == vb && t.c as u32 == cc as u32, "a field received another parameter's value"),
            Err(_) => assert!(false, "three well-formed parameters were rejected"),
        }
        kani::cover!(perm == 5 && r.is_ok(), "fully reversed order");
        std::mem::forget(r);
    }

    // @tier quick
    // @obligation the deserializer never percent-decodes: a value that still looks like an escape after the one decoding pass of the extractor ("%41", "100%25", "a%2Fb") reaches String, &str and Cow fields byte for byte, on the borrowed and on the owned path (decoding happens exactly once, upstream)
    // @bounds 3 fixed escape-looking values x {String, &str} fields x {borrowed, owned} representation, chosen symbolically
    // @functions ValueDeserializer::{deserialize_string,deserialize_str}
    #[kani::proof]
    #[kani::unwind(8)]
    #[kani::stub(std::fmt::format, fmt_stub)]
    fn c15_value_is_not_decoded_again() {
        // constants on every branch (value and representation): whatever the deserializer does to the
        // string is then executed on concrete data
        let pick: u8 = kani::any();
        kani::assume(pick < 6);
        match pick {
            0 => not_decoded_again("%41", false),
            1 => not_decoded_again("%41", true),
            2 => not_decoded_again("100%25", false),
            3 => not_decoded_again("100%25", true),
            4 => not_decoded_again("a%2Fb", false),
            _ => not_decoded_again("a%2Fb", true),
        }
        kani::cover!(pick == 3, "owned 100%25");
    }
    fn not_decoded_again(v: &'static str, owned: bool) {
        #[derive(Deserialize)]
        struct Two<'a> {
            a: String,
            b: &'a str,
        }
        let va: Cow<'_, str> = if owned { Cow::Owned(v.to_owned()) } else { Cow::Borrowed(v) };
        let params: [(&str, Cow<'_, str>); 2] = [("a", va), ("b", Cow::Borrowed(v))];
        let r = Two::deserialize(PathDeserializer::new(&params));
        match &r {
            Ok(o) => {
                assert!(same_bytes(o.a.as_bytes(), v.as_bytes()), "a String field was decoded a second time (or otherwise altered)");
                assert!(same_bytes(o.b.as_bytes(), v.as_bytes()), "a &str field was altered");
            }
            Err(_) => assert!(false, "an escape-looking value was rejected"),
        }
        std::mem::forget(r);
        std::mem::forget(params);
    }

    // @tier quick
    // @obligation with two parameters, a malformed value is reported against ITS OWN key and type (ParseErrorAtKey{key, value's type}), whichever of the two fields is the malformed one and whatever the order of arrival; the well-formed one never turns the error into a success
    // @bounds 2 parameters (u8 and bool fields) in symbolic order; one of them symbolic 0..=2 ASCII bytes, the other well-formed
    // @functions MapDeserializer::next_value_seed, ValueDeserializer::{deserialize_u8,deserialize_bool} error path of parse_value!
    #[kani::proof]
    #[kani::unwind(6)]
    #[kani::stub(std::fmt::format, fmt_stub)]
    fn c15_error_names_the_right_key() {
        #[derive(Deserialize)]
        struct Two {
            a: u8,
            b: bool,
        }
        let mut buf = [0u8; 2];
        let s = sym_ascii::<2>(&mut buf);
        let bad_is_a: bool = kani::any();
        let swapped: bool = kani::any();
        let va: &str = if bad_is_a { s } else { "7" };
        let vb: &str = if bad_is_a { "true" } else { s };
        let params: [(&str, Cow<'_, str>); 2] = if swapped {
            [("b", Cow::Borrowed(vb)), ("a", Cow::Borrowed(va))]
        } else {
            [("a", Cow::Borrowed(va)), ("b", Cow::Borrowed(vb))]
        };
        let r = Two::deserialize(PathDeserializer::new(&params));
        let a_ok = !bad_is_a || ref_int(s.as_bytes(), false, 0, 255).is_some();
        let b_ok = bad_is_a; // a 0..=2 byte value is never "true"/"false"
        match &r {
            Ok(_) => assert!(a_ok && b_ok, "a malformed parameter was accepted"),
            Err(e) => {
                assert!(!(a_ok && b_ok), "two well-formed parameters were rejected");
                if !a_ok {
                    assert!(is_parse_error_for(e, "a", "u8"), "the error does not name the malformed parameter `a` / its type");
                } else {
                    assert!(is_parse_error_for(e, "b", "bool"), "the error does not name the malformed parameter `b` / its type");
                }
            }
        }
        kani::cover!(r.is_err() && !bad_is_a && swapped, "second field malformed, reversed order");
        kani::cover!(r.is_ok(), "both fine");
        std::mem::forget(r);
    }

    // @tier quick
    // @obligation a long malformed value that contains a multi-byte character at ANY offset (0..=44 of 48 bytes, so also straddling every byte position around 40) ends in the documented ParseErrorAtKey for its key and type - never in a panic (Kani's panic checks are on) and never in a value - for u8, i32, bool and char fields
    // @bounds 1 parameter of 48 bytes: k ASCII bytes, one 3-byte character, ASCII padding; k symbolic in 0..=44; 4 target types
    // @functions ValueDeserializer::{deserialize_u8,deserialize_i32,deserialize_bool,deserialize_char} error path of parse_value!
    // @timeout 1500
    // @weight 470
    #[kani::proof]
    #[kani::unwind(50)]
    #[kani::stub(std::fmt::format, fmt_stub)]
    fn c15_long_multibyte_value_is_a_clean_error() {
        #[derive(Deserialize)]
        struct A8 {
            #[allow(dead_code)]
            a: u8,
        }
        #[derive(Deserialize)]
        struct A32 {
            #[allow(dead_code)]
            a: i32,
        }
        #[derive(Deserialize)]
        struct AB {
            #[allow(dead_code)]
            a: bool,
        }
        #[derive(Deserialize)]
        struct AC {
            #[allow(dead_code)]
            a: char,
        }
        let k: usize = kani::any();
        kani::assume(k <= 44);
        let mut buf = [b'y'; 48];
        let mut i = 0;
        while i < 48 {
            if i < k {
                buf[i] = b'x';
            } else if i == k {
                buf[i] = 0xE8;
            } else if i == k + 1 {
                buf[i] = 0xAA;
            } else if i == k + 2 {
                buf[i] = 0x9E;
            }
            i += 1;
        }
        // k ASCII bytes + U+8A9E + ASCII bytes: valid UTF-8 by construction
        let s = unsafe { std::str::from_utf8_unchecked(&buf) };
        let params: [(&str, Cow<'_, str>); 1] = [("a", Cow::Borrowed(s))];
        let d = PathDeserializer::new(&params);
        let t: u8 = kani::any();
        kani::assume(t < 4);
        let ok = match t {
            0 => match A8::deserialize(d) { Err(e) => { let k = is_parse_error_for(&e, "a", "u8"); std::mem::forget(e); k } Ok(_) => false },
            1 => match A32::deserialize(d) { Err(e) => { let k = is_parse_error_for(&e, "a", "i32"); std::mem::forget(e); k } Ok(_) => false },
            2 => match AB::deserialize(d) { Err(e) => { let k = is_parse_error_for(&e, "a", "bool"); std::mem::forget(e); k } Ok(_) => false },
            _ => match AC::deserialize(d) { Err(e) => { let k = is_parse_error_for(&e, "a", "char"); std::mem::forget(e); k } Ok(_) => false },
        };
        assert!(ok, "a long malformed value with a multi-byte character did not end in the documented parse error");
        kani::cover!(k == 39 && t == 0, "the multi-byte character straddles byte 40");
    }

    // @tier quick
    // @obligation a newtype-struct field follows the law of its inner type (here u8), and a unit-like `()` field accepts the parameter without inspecting it
    // @bounds 2 parameters; the newtype value symbolic 0..=3 ASCII bytes
    // @functions ValueDeserializer::{deserialize_newtype_struct,deserialize_unit,deserialize_u8}
    #[kani::proof]
    #[kani::unwind(5)]
    #[kani::stub(std::fmt::format, fmt_stub)]
    fn c15_value_newtype_and_unit() {
        #[derive(Deserialize)]
        struct W(u8);
        #[derive(Deserialize)]
        struct Two {
            a: W,
            #[allow(dead_code)]
            b: (),
        }
        let mut buf = [0u8; 3];
        let s = sym_ascii::<3>(&mut buf);
        let params: [(&str, Cow<'_, str>); 2] = [("a", Cow::Borrowed(s)), ("b", Cow::Borrowed("x"))];
        let r = Two::deserialize(PathDeserializer::new(&params));
        let want = ref_int(s.as_bytes(), false, 0, 255);
        match (&r, want) {
            (Ok(o), Some(v)) => assert!(o.a.0 as i64 == v, "newtype field: wrong value"),
            (Err(e), None) => assert!(is_parse_error_for(e, "a", "u8"), "newtype field: wrong error"),
            _ => assert!(false, "newtype field: extraction and the reference reader disagree"),
        }
        kani::cover!(matches!(&r, Ok(o) if o.a.0 == 255), "newtype 255");
        kani::cover!(r.is_err(), "rejected");
        std::mem::forget(r);
    }

    /// A visitor that only records WHICH `visit_*` method the deserializer chose, and with what
    /// numeric value (as f64 bits for floats, as i128 for integers).
    struct Which;
    #[derive(PartialEq, Eq, Clone, Copy, Debug)]
    enum Hit {
        Bool(bool),
        I8(i8),
        I16(i16),
        I32(i32),
        I64(i64),
        I128(i128),
        U8(u8),
        U16(u16),
        U32(u32),
        U64(u64),
        U128(u128),
        F32(u32),
        F64(u64),
        Char(char),
        Str,
        Other,
    }
    impl<'de> Visitor<'de> for Which {
        type Value = Hit;
        fn expecting(&self, f: &mut std::fmt::Formatter) -> std::fmt::Result {
            f.write_str("anything")
        }
        fn visit_bool<E>(self, v: bool) -> Result<Hit, E> { Ok(Hit::Bool(v)) }
        fn visit_i8<E>(self, v: i8) -> Result<Hit, E> { Ok(Hit::I8(v)) }
        fn visit_i16<E>(self, v: i16) -> Result<Hit, E> { Ok(Hit::I16(v)) }
        fn visit_i32<E>(self, v: i32) -> Result<Hit, E> { Ok(Hit::I32(v)) }
        fn visit_i64<E>(self, v: i64) -> Result<Hit, E> { Ok(Hit::I64(v)) }
        fn visit_i128<E>(self, v: i128) -> Result<Hit, E> { Ok(Hit::I128(v)) }
        fn visit_u8<E>(self, v: u8) -> Result<Hit, E> { Ok(Hit::U8(v)) }
        fn visit_u16<E>(self, v: u16) -> Result<Hit, E> { Ok(Hit::U16(v)) }
        fn visit_u32<E>(self, v: u32) -> Result<Hit, E> { Ok(Hit::U32(v)) }
        fn visit_u64<E>(self, v: u64) -> Result<Hit, E> { Ok(Hit::U64(v)) }
        fn visit_u128<E>(self, v: u128) -> Result<Hit, E> { Ok(Hit::U128(v)) }
        fn visit_f32<E>(self, v: f32) -> Result<Hit, E> { Ok(Hit::F32(v.to_bits())) }
        fn visit_f64<E>(self, v: f64) -> Result<Hit, E> { Ok(Hit::F64(v.to_bits())) }
        fn visit_char<E>(self, v: char) -> Result<Hit, E> { Ok(Hit::Char(v)) }
        fn visit_str<E>(self, _v: &str) -> Result<Hit, E> { Ok(Hit::Str) }
        fn visit_string<E>(self, _v: String) -> Result<Hit, E> { Ok(Hit::Str) }
        fn visit_unit<E>(self) -> Result<Hit, E> { Ok(Hit::Other) }
    }

    // @tier quick
    // @obligation type routing of single values: for every numeric target type the value deserializer parses the text AS THAT TYPE and hands it to the visitor method of that type (deserialize_i64 -> visit_i64 with the i64 value, deserialize_f64 -> visit_f64 with the f64 value, ...): no value ever travels through a narrower or differently-signed type
    // @bounds value = one symbolic decimal digit for the 10 integer types; the literal "0.1" (not representable in f32) and "16777217" for f32/f64; bool/char/string with fixed literals
    // @functions ValueDeserializer::deserialize_{bool,i8,i16,i32,i64,i128,u8,u16,u32,u64,u128,f32,f64,char,str,string} (parse_value! table)
    // @timeout 1800
    // @weight 220
    #[kani::proof]
    #[kani::unwind(12)]
    #[kani::stub(std::fmt::format, fmt_stub)]
    fn c15_type_routing() {
        let d: u8 = kani::any();
        kani::assume(d <= 9);
        let buf = [b'0' + d];
        let s = unsafe { std::str::from_utf8_unchecked(&buf[..]) };
        let vd = |v: &'static str| ValueDeserializer { key: None, value: Cow::Borrowed(v) };
        let vs = || ValueDeserializer { key: None, value: Cow::Borrowed(s) };
        let which: u8 = kani::any();
        kani::assume(which < 16);
        let ok = match which {
            0 => matches!(vs().deserialize_i8(Which), Ok(Hit::I8(v)) if v == d as i8),
            1 => matches!(vs().deserialize_i16(Which), Ok(Hit::I16(v)) if v == d as i16),
            2 => matches!(vs().deserialize_i32(Which), Ok(Hit::I32(v)) if v == d as i32),
            3 => matches!(vs().deserialize_i64(Which), Ok(Hit::I64(v)) if v == d as i64),
            4 => matches!(vs().deserialize_i128(Which), Ok(Hit::I128(v)) if v == d as i128),
            5 => matches!(vs().deserialize_u8(Which), Ok(Hit::U8(v)) if v == d),
            6 => matches!(vs().deserialize_u16(Which), Ok(Hit::U16(v)) if v == d as u16),
            7 => matches!(vs().deserialize_u32(Which), Ok(Hit::U32(v)) if v == d as u32),
            8 => matches!(vs().deserialize_u64(Which), Ok(Hit::U64(v)) if v == d as u64),
            9 => matches!(vs().deserialize_u128(Which), Ok(Hit::U128(v)) if v == d as u128),
            10 => matches!(vd("true").deserialize_bool(Which), Ok(Hit::Bool(true))),
            11 => matches!(vd("x").deserialize_char(Which), Ok(Hit::Char('x'))),
            12 => matches!(vd("x").deserialize_str(Which), Ok(Hit::Str)) && matches!(vd("x").deserialize_string(Which), Ok(Hit::Str)),
            // "0.1" and 16777217 are not representable in f32: a detour through f32 changes the bits
            13 => matches!(vd("0.1").deserialize_f64(Which), Ok(Hit::F64(b)) if b == 0.1f64.to_bits()),
            14 => matches!(vd("16777217").deserialize_f64(Which), Ok(Hit::F64(b)) if b == 16777217f64.to_bits()),
            _ => matches!(vd("0.5").deserialize_f32(Which), Ok(Hit::F32(b)) if b == 0.5f32.to_bits()),
        };
        assert!(ok, "a single value was parsed as, or handed over through, another type than the target's");
        kani::cover!(which == 13, "f64 literal");
        kani::cover!(which == 4 && d == 9, "i128");
    }
}
