// ------------------------------------------------------------------------------------------------
// Verification harnesses for the `PathParams::extract` stage of C15 (the percent-decoding step that
// precedes the deserializer): the real path_params.rs, raw_path_params.rs, deserializer.rs and
// errors.rs, unmodified, with the real `percent-encoding` and `serde`; `matchit` is a shim that only
// provides the ordered parameter list of a successful match. Each raw value is picked by the solver
// out of a table of constants (percent-decoding of *symbolic* bytes does not finish in CBMC: probe
// P17), and so are the number of parameters, their order and which of them are encoded; decided is
// what `extract` itself does: every value is decoded exactly once, stays paired with its own key
// whatever the order and whichever other values needed decoding, and an undecodable value is reported
// for its own key.
// ------------------------------------------------------------------------------------------------
#![allow(dead_code, unused_imports)]
#[path = "nd.rs"]
mod nd;
use super::errors::ExtractPathParamsError;
use super::{PathParams, RawPathParams};

/// (raw value as it appears in the URL, the text the client encoded; None = not UTF-8 once decoded)
const TABLE: [(&str, Option<&str>); 9] = [
    ("a", Some("a")),
    ("%62", Some("b")),
    ("c%2Fd", Some("c/d")),
    ("%2525", Some("%25")),
    ("%FF", None),
    ("", Some("")),
    ("x%41y", Some("xAy")),
    ("%E2%82%AC", Some("\u{20AC}")),
    // a literal '+' after an escape: in a path it is a plus sign, not a space
    ("a%20+b", Some("a +b")),
];
const KEYS: [&str; 3] = ["k0", "k1", "k2"];

fn same(a: &str, b: &str) -> bool {
    let (a, b) = (a.as_bytes(), b.as_bytes());
    if a.len() != b.len() {
        return false;
    }
    let mut i = 0;
    while i < a.len() {
        if a[i] != b[i] {
            return false;
        }
        i += 1;
    }
    true
}


fn fmt_stub(_a: std::fmt::Arguments<'_>) -> String {
    String::new()
}

#[derive(serde::Deserialize)]
struct Two {
    k0: String,
    k1: String,
}

/// One extraction with two parameters; every argument is a constant at each call site (the menu the
/// solver picks from is the set of call sites), so the third-party decoder runs on concrete data.
/// `p0` / `p1`: (key index, table index) in match order.
fn run_two(p0: (usize, usize), p1: (usize, usize)) -> bool {
    nd::trace(|| format!("{{\"kind\":\"c15x\",\"target\":\"two\",\"params\":[[{},{}],[{},{}]]}}", p0.0, p0.1, p1.0, p1.1));
    let mut p = matchit::Params::new();
    p.verif_push(KEYS[p0.0], TABLE[p0.1].0);
    p.verif_push(KEYS[p1.0], TABLE[p1.1].0);
    let r: Result<PathParams<Two>, _> = PathParams::extract(RawPathParams::from(p));
    // what the client encoded, per key
    let want = |k: usize| if p0.0 == k { TABLE[p0.1].1 } else { TABLE[p1.1].1 };
    let first_bad = if TABLE[p0.1].1.is_none() {
        Some(p0.0)
    } else if TABLE[p1.1].1.is_none() {
        Some(p1.0)
    } else {
        None
    };
    let ok = match (&r, first_bad) {
        (Ok(v), None) => {
            assert!(same(&v.0.k0, want(0).unwrap()), "k0 does not hold the text the client encoded");
            assert!(same(&v.0.k1, want(1).unwrap()), "k1 does not hold the text the client encoded");
            true
        }
        (Err(ExtractPathParamsError::InvalidUtf8InPathParameter(e)), Some(k)) => {
            assert!(same(&e.invalid_key, KEYS[k]), "the invalid value is reported for another key");
            false
        }
        (Ok(_), Some(_)) => panic!("a value that is not UTF-8 once decoded was accepted"),
        (Err(_), _) => panic!("well-formed parameters were refused (or the wrong error kind was produced)"),
    };
    std::mem::forget(r);
    ok
}

// @tier quick
// @obligation two path parameters (String fields), the solver choosing among constant call sites that vary the order of arrival and which value is percent-encoded: each field holds exactly the text the client encoded under ITS OWN name - a decoded value is never filed under the other parameter
// @bounds 2 parameters in declaration order; none / first / second / both encoded (\"%62\", \"c%2Fd\")
// @functions PathParams::extract, RawPathParams::iter, EncodedParamValue::decode, PathDeserializer::new
// @timeout 1500
// @mem 16
#[kani::proof]
#[kani::unwind(12)]
#[kani::stub(std::fmt::format, fmt_stub)]
fn c15x_extract_pairing_in_order() {
    let c = nd::u8_below(4);
    match c {
        0 => drop(run_two((0, 0), (1, 0))),
        1 => drop(run_two((0, 1), (1, 0))),
        2 => drop(run_two((0, 0), (1, 1))),
        _ => drop(run_two((0, 1), (1, 2))),
    };
    kani::cover!(c == 2, "plain first, encoded second");
}

// @tier quick
// @obligation two path parameters (String fields), the solver choosing among constant call sites that vary the order of arrival and which value is percent-encoded: each field holds exactly the text the client encoded under ITS OWN name - a decoded value is never filed under the other parameter
// @bounds 2 parameters in reverse order; first / second / both encoded, an encoded value between plain text (\"x%41y\"), a literal plus sign after an escape (\"a%20+b\")
// @functions PathParams::extract, RawPathParams::iter, EncodedParamValue::decode, PathDeserializer::new
// @timeout 1500
// @mem 16
#[kani::proof]
#[kani::unwind(12)]
#[kani::stub(std::fmt::format, fmt_stub)]
fn c15x_extract_pairing_reversed() {
    let c = nd::u8_below(4);
    match c {
        0 => drop(run_two((1, 1), (0, 0))),
        1 => drop(run_two((1, 0), (0, 1))),
        2 => drop(run_two((1, 1), (0, 2))),
        _ => drop(run_two((1, 8), (0, 6))),
    };
    kani::cover!(c == 1, "plain value first, encoded second, reversed order");
}

// @tier quick
// @obligation percent-decoding happens exactly once: an encoded percent sign (\"%2525\" -> \"%25\") and an encoded multi-byte character survive as the client wrote them, the empty value stays empty - in either position and either order
// @bounds 2 parameters, 4 constant call sites
// @functions PathParams::extract, RawPathParams::iter, EncodedParamValue::decode, PathDeserializer::new
// @timeout 1500
// @mem 16
#[kani::proof]
#[kani::unwind(12)]
#[kani::stub(std::fmt::format, fmt_stub)]
fn c15x_extract_decodes_once() {
    let c = nd::u8_below(4);
    match c {
        0 => drop(run_two((0, 3), (1, 0))),
        1 => drop(run_two((1, 0), (0, 3))),
        2 => drop(run_two((0, 7), (1, 3))),
        _ => drop(run_two((1, 1), (0, 5))),
    };
    kani::cover!(c == 0, "an encoded percent sign survives");
}

// @tier quick
// @obligation a value that is not UTF-8 once decoded (\"%FF\") makes extraction fail with InvalidUtf8InPathParameter naming the key of the first such value in match order - whichever position and order, also when both are invalid
// @bounds 2 parameters, 4 constant call sites
// @functions PathParams::extract, RawPathParams::iter, EncodedParamValue::decode, PathDeserializer::new
// @timeout 1500
// @mem 16
#[kani::proof]
#[kani::unwind(12)]
#[kani::stub(std::fmt::format, fmt_stub)]
fn c15x_extract_invalid_utf8() {
    let c = nd::u8_below(4);
    match c {
        0 => drop(run_two((0, 4), (1, 0))),
        1 => drop(run_two((0, 0), (1, 4))),
        2 => drop(run_two((1, 1), (0, 4))),
        _ => drop(run_two((1, 4), (0, 4))),
    };
    kani::cover!(c == 2, "invalid UTF-8 in the second parameter, reversed order");
}

#[derive(serde::Deserialize)]
struct Three<'a> {
    k0: std::borrow::Cow<'a, str>,
    k1: String,
    k2: std::borrow::Cow<'a, str>,
}

fn run_three(p: [(usize, usize); 3]) {
    nd::trace(|| format!("{{\"kind\":\"c15x\",\"target\":\"three\",\"params\":[[{},{}],[{},{}],[{},{}]]}}", p[0].0, p[0].1, p[1].0, p[1].1, p[2].0, p[2].1));
    let mut ps = matchit::Params::new();
    ps.verif_push(KEYS[p[0].0], TABLE[p[0].1].0);
    ps.verif_push(KEYS[p[1].0], TABLE[p[1].1].0);
    ps.verif_push(KEYS[p[2].0], TABLE[p[2].1].0);
    let r: Result<PathParams<Three<'_>>, _> = PathParams::extract(RawPathParams::from(ps));
    let want = |k: usize| {
        let t = if p[0].0 == k { p[0].1 } else if p[1].0 == k { p[1].1 } else { p[2].1 };
        TABLE[t].1.unwrap()
    };
    match &r {
        Ok(v) => {
            assert!(same(&v.0.k0, want(0)), "k0 does not hold the text the client encoded");
            assert!(same(&v.0.k1, want(1)), "k1 does not hold the text the client encoded");
            assert!(same(&v.0.k2, want(2)), "k2 does not hold the text the client encoded");
        }
        Err(_) => panic!("well-formed parameters were refused"),
    }
    std::mem::forget(r);
}

// @tier thorough
// @obligation three path parameters (Cow, String, Cow fields), the solver choosing among constant call sites that vary the rotation of their order and which of them are percent-encoded: every field holds the text the client encoded under its own name (a value decoded into an owned string stays paired with its key whatever its position and whichever other values needed decoding)
// @bounds 3 parameters, 4 constant call sites: only the middle / only the last encoded, in declaration order and rotated
// @functions PathParams::extract, RawPathParams::iter, EncodedParamValue::decode, PathDeserializer::new
// @timeout 1800
// @mem 20
#[kani::proof]
#[kani::unwind(12)]
#[kani::stub(std::fmt::format, fmt_stub)]
fn c15x_extract_three_params() {
    let c = nd::u8_below(4);
    match c {
        0 => drop(run_three([(0, 0), (1, 1), (2, 0)])),
        1 => drop(run_three([(0, 0), (1, 0), (2, 1)])),
        2 => drop(run_three([(1, 0), (2, 1), (0, 0)])),
        _ => drop(run_three([(2, 0), (0, 0), (1, 1)])),
    };
    kani::cover!(c == 2, "the last-but-one value encoded, rotated order");
}

// @tier thorough
// @obligation three path parameters (Cow, String, Cow fields), the solver choosing among constant call sites that vary the rotation of their order and which of them are percent-encoded: every field holds the text the client encoded under its own name (a value decoded into an owned string stays paired with its key whatever its position and whichever other values needed decoding)
// @bounds 3 parameters, 4 constant call sites: first / two / all encoded, rotated
// @functions PathParams::extract, RawPathParams::iter, EncodedParamValue::decode, PathDeserializer::new
// @timeout 1800
// @mem 20
#[kani::proof]
#[kani::unwind(12)]
#[kani::stub(std::fmt::format, fmt_stub)]
fn c15x_extract_three_params_more() {
    let c = nd::u8_below(4);
    match c {
        0 => drop(run_three([(0, 1), (1, 0), (2, 0)])),
        1 => drop(run_three([(0, 1), (1, 0), (2, 2)])),
        2 => drop(run_three([(1, 0), (2, 2), (0, 1)])),
        _ => drop(run_three([(2, 6), (0, 1), (1, 2)])),
    };
    kani::cover!(c == 3, "all three encoded, rotated");
}

#[cfg(test)]
mod native_search {
    use super::*;
    fn reset() {}
    #[test]
    fn c15x_extract_pairing_in_order() { nd::search("c15x_extract_pairing_in_order", super::c15x_extract_pairing_in_order, reset) }
    #[test]
    fn c15x_extract_pairing_reversed() { nd::search("c15x_extract_pairing_reversed", super::c15x_extract_pairing_reversed, reset) }
    #[test]
    fn c15x_extract_decodes_once() { nd::search("c15x_extract_decodes_once", super::c15x_extract_decodes_once, reset) }
    #[test]
    fn c15x_extract_invalid_utf8() { nd::search("c15x_extract_invalid_utf8", super::c15x_extract_invalid_utf8, reset) }
    #[test]
    fn c15x_extract_three_params() { nd::search("c15x_extract_three_params", super::c15x_extract_three_params, reset) }
    #[test]
    fn c15x_extract_three_params_more() { nd::search("c15x_extract_three_params_more", super::c15x_extract_three_params_more, reset) }
}
