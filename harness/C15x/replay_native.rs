
// ------------------------------------------------------------------------------------------------
// Native replay of a `PathParams::extract` counterexample against the REAL pavex crate (appended by
// /verif to the scratch copy of path_params.rs; never part of /repo): a real `matchit::Router` with
// one route whose parameters come in the script's order is asked to match a path built from the raw
// values, and the real `Params` it returns go through the real `PathParams::extract`.
// Script (JSON, path in $VERIF_C15X_SCRIPT): {"target": "two"|"three", "params": [[key index, table index], ..]}
// ------------------------------------------------------------------------------------------------
// (gated on a cfg of its own: the same scratch file is also path-included by the Kani encoding)
#[cfg(all(test, verif_replay))]
mod verif_replay_c15x {
    use super::PathParams;
    use crate::request::path::RawPathParams;
    use crate::request::path::errors::ExtractPathParamsError;

    const TABLE: [(&str, Option<&str>); 9] = [
        ("a", Some("a")),
        ("%62", Some("b")),
        ("c%2Fd", Some("c/d")),
        ("%2525", Some("%25")),
        ("%FF", None),
        ("", Some("")),
        ("x%41y", Some("xAy")),
        ("%E2%82%AC", Some("\u{20AC}")),
        ("a%20+b", Some("a +b")),
    ];
    const KEYS: [&str; 3] = ["k0", "k1", "k2"];

    #[derive(serde::Deserialize, Debug)]
    struct Two {
        k0: String,
        k1: String,
    }
    #[derive(serde::Deserialize, Debug)]
    struct Three<'a> {
        k0: std::borrow::Cow<'a, str>,
        k1: String,
        k2: std::borrow::Cow<'a, str>,
    }

    #[test]
    fn verif_replay_c15x() {
        let Ok(path) = std::env::var("VERIF_C15X_SCRIPT") else {
            println!("C15X-REPLAY MALFORMED no script given");
            return;
        };
        let Some(v) = std::fs::read_to_string(&path).ok().and_then(|s| serde_json::from_str::<serde_json::Value>(&s).ok()) else {
            println!("C15X-REPLAY MALFORMED cannot read {path}");
            return;
        };
        let params: Vec<(usize, usize)> = v["params"]
            .as_array()
            .map(|a| a.iter().map(|p| (p[0].as_u64().unwrap_or(0) as usize, p[1].as_u64().unwrap_or(0) as usize)).collect())
            .unwrap_or_default();
        if params.iter().any(|(_, t)| TABLE[*t].0.is_empty()) {
            println!("C15X-REPLAY NOT-REPRODUCED a real router never yields an empty parameter value; not replayable");
            return;
        }
        let template: String = params.iter().map(|(k, _)| format!("/{{{}}}", KEYS[*k])).collect();
        let url: String = params.iter().map(|(_, t)| format!("/{}", TABLE[*t].0)).collect();
        let mut router = matchit::Router::new();
        router.insert(template.clone(), ()).unwrap();
        let m = match router.at(&url) {
            Ok(m) => m,
            Err(e) => {
                println!("C15X-REPLAY NOT-REPRODUCED the real router does not match {url} against {template}: {e}");
                return;
            }
        };
        let expected: Vec<Option<&str>> = {
            let mut by_key = vec![None; 3];
            for (k, t) in &params {
                by_key[*k] = TABLE[*t].1;
            }
            by_key
        };
        let first_bad = params.iter().find(|(_, t)| TABLE[*t].1.is_none()).map(|(k, _)| KEYS[*k]);
        let raw = RawPathParams::from(m.params);
        let verdict: Option<String> = if v["target"] == "three" {
            match (PathParams::<Three<'_>>::extract(raw), first_bad) {
                (Ok(p), None) => {
                    let got = [p.0.k0.as_ref(), p.0.k1.as_str(), p.0.k2.as_ref()];
                    (0..3).find(|i| Some(got[*i]) != expected[*i]).map(|i| format!("{} = {:?}, the client encoded {:?}", KEYS[i], got[i], expected[i]))
                }
                (Ok(_), Some(k)) => Some(format!("the value of {k} is not UTF-8 once decoded, yet extraction succeeded")),
                (Err(ExtractPathParamsError::InvalidUtf8InPathParameter(e)), Some(k)) => (e.invalid_key != k).then(|| format!("invalid UTF-8 reported for {} instead of {k}", e.invalid_key)),
                (Err(e), _) => Some(format!("unexpected error {e:?}")),
            }
        } else {
            match (PathParams::<Two>::extract(raw), first_bad) {
                (Ok(p), None) => {
                    let got = [p.0.k0.as_str(), p.0.k1.as_str()];
                    (0..2).find(|i| Some(got[*i]) != expected[*i]).map(|i| format!("{} = {:?}, the client encoded {:?}", KEYS[i], got[i], expected[i]))
                }
                (Ok(_), Some(k)) => Some(format!("the value of {k} is not UTF-8 once decoded, yet extraction succeeded")),
                (Err(ExtractPathParamsError::InvalidUtf8InPathParameter(e)), Some(k)) => (e.invalid_key != k).then(|| format!("invalid UTF-8 reported for {} instead of {k}", e.invalid_key)),
                (Err(e), _) => Some(format!("unexpected error {e:?}")),
            }
        };
        match verdict {
            Some(why) => println!("C15X-REPLAY REPRODUCED {url} against {template}: {why}"),
            None => println!("C15X-REPLAY NOT-REPRODUCED the real extractor behaves as documented on {url} against {template}"),
        }
    }
}
