
// ------------------------------------------------------------------------------------------------
// Verification harnesses for C19 (what you register is what the compiler sees), appended by /verif to
// the scratch copy of runtime/pavex/src/blueprint/conversions.rs (never part of /repo). The real,
// unshimmed `pavex` and `pavex_bp_schema` crates.
//
// Decided here - the part of the builder that is within reach of CBMC (DESIGN.md, C19): the
// *modifier* calls that follow a registration, on a schema value that already holds the component
// (built directly as a struct literal: the registration calls themselves, with their `String`
// coordinates and `Location::caller`, did not finish - probe P20):
//   constructor: lifecycle(_), cloning(_), clone_if_necessary(), never_clone(), allow/warn/deny(lint)
//   config type: cloning(_), clone_if_necessary(), never_clone(), default_if_missing(), required(),
//                include_if_unused()
//   prebuilt:    cloning(_), clone_if_necessary(), never_clone()
// and the enum conversions (conversions.rs) they go through. For every sequence of up to 3 such
// calls with arbitrary arguments, the schema ends up holding what the LAST call of each kind said
// (overriding calls), the component the calls were addressed to - and only that one - changed, and
// every other field is untouched.
// ------------------------------------------------------------------------------------------------
#[cfg(kani)]
mod verif_c19 {
    use crate::blueprint::{CloningPolicy, Lifecycle, Lint, RegisteredConfig, RegisteredConstructor, RegisteredPrebuilt};
    use pavex_bp_schema as sch;

    fn loc(line: u32) -> sch::Location {
        sch::Location { line, column: 1, file: String::new() }
    }
    fn coords() -> sch::AnnotationCoordinates {
        sch::AnnotationCoordinates {
            id: String::new(),
            created_at: sch::CreatedAt { package_name: String::new(), package_version: String::new() },
            macro_name: String::new(),
        }
    }
    fn constructor(line: u32) -> sch::Component {
        sch::Component::Constructor(sch::Constructor {
            coordinates: coords(),
            lifecycle: None,
            cloning_policy: None,
            error_handler: None,
            lints: Default::default(),
            registered_at: loc(line),
        })
    }
    fn config(line: u32) -> sch::Component {
        sch::Component::ConfigType(sch::ConfigType {
            coordinates: coords(),
            cloning_policy: None,
            default_if_missing: None,
            include_if_unused: None,
            registered_at: loc(line),
        })
    }
    fn prebuilt(line: u32) -> sch::Component {
        sch::Component::PrebuiltType(sch::PrebuiltType { coordinates: coords(), cloning_policy: None, registered_at: loc(line) })
    }
    /// three components: [constructor, config, prebuilt] in a solver-chosen rotation, so that the
    /// component id the calls are addressed to is not always 0
    fn schema(rot: u8) -> sch::Blueprint {
        let components = match rot {
            0 => vec![constructor(10), config(11), prebuilt(12)],
            1 => vec![prebuilt(12), constructor(10), config(11)],
            _ => vec![config(11), prebuilt(12), constructor(10)],
        };
        sch::Blueprint { creation_location: loc(1), components }
    }
    fn index_of(rot: u8, what: u8) -> usize {
        // what: 0 constructor, 1 config, 2 prebuilt
        ((what + rot) % 3) as usize
    }

    fn any_cloning() -> (CloningPolicy, sch::CloningPolicy) {
        if kani::any() {
            (CloningPolicy::CloneIfNecessary, sch::CloningPolicy::CloneIfNecessary)
        } else {
            (CloningPolicy::NeverClone, sch::CloningPolicy::NeverClone)
        }
    }

    fn untouched_constructor(c: &sch::Component, line: u32) -> bool {
        matches!(c, sch::Component::Constructor(k) if k.lifecycle.is_none() && k.cloning_policy.is_none() && k.error_handler.is_none() && k.lints.is_empty() && k.registered_at.line == line)
    }
    fn untouched_config(c: &sch::Component, line: u32) -> bool {
        matches!(c, sch::Component::ConfigType(k) if k.cloning_policy.is_none() && k.default_if_missing.is_none() && k.include_if_unused.is_none() && k.registered_at.line == line)
    }
    fn untouched_prebuilt(c: &sch::Component, line: u32) -> bool {
        matches!(c, sch::Component::PrebuiltType(k) if k.cloning_policy.is_none() && k.registered_at.line == line)
    }

    // @tier quick
    // @obligation constructor modifiers on the real builder (RegisteredConstructor over a schema with three components, the constructor at a solver-chosen index): any sequence of 3 calls out of lifecycle(any) / cloning(any) / clone_if_necessary() / never_clone(): the schema's constructor holds the lifecycle and cloning policy of the LAST call of each kind, converted faithfully (Singleton stays Singleton, ...), nothing else about it changed, and the two other components are untouched
    // @bounds 3 components, 3 modifier calls, all argument values
    // @functions RegisteredConstructor::lifecycle, ::cloning, ::clone_if_necessary, ::never_clone, conversions::lifecycle2lifecycle, conversions::cloning2cloning
    // @timeout 900
    #[kani::proof]
    #[kani::unwind(5)]
    fn c19_constructor_lifecycle_and_cloning() {
        let rot: u8 = kani::any();
        kani::assume(rot < 3);
        let mut bp = schema(rot);
        let id = index_of(rot, 0);
        let mut want_l: Option<sch::Lifecycle> = None;
        let mut want_c: Option<sch::CloningPolicy> = None;
        let mut r = RegisteredConstructor { blueprint: &mut bp, component_id: id };
        let mut i = 0;
        while i < 3 {
            let k: u8 = kani::any();
            kani::assume(k < 4);
            r = match k {
                0 => {
                    let l: u8 = kani::any();
                    kani::assume(l < 3);
                    match l {
                        0 => {
                            want_l = Some(sch::Lifecycle::Singleton);
                            r.lifecycle(Lifecycle::Singleton)
                        }
                        1 => {
                            want_l = Some(sch::Lifecycle::RequestScoped);
                            r.lifecycle(Lifecycle::RequestScoped)
                        }
                        _ => {
                            want_l = Some(sch::Lifecycle::Transient);
                            r.lifecycle(Lifecycle::Transient)
                        }
                    }
                }
                1 => {
                    let (c, w) = any_cloning();
                    want_c = Some(w);
                    r.cloning(c)
                }
                2 => {
                    want_c = Some(sch::CloningPolicy::CloneIfNecessary);
                    r.clone_if_necessary()
                }
                _ => {
                    want_c = Some(sch::CloningPolicy::NeverClone);
                    r.never_clone()
                }
            };
            i += 1;
        }
        let _ = r;
        assert!(bp.components.len() == 3, "a modifier call added or removed a component");
        match &bp.components[id] {
            sch::Component::Constructor(k) => {
                assert!(k.lifecycle == want_l, "the schema does not hold the lifecycle the last lifecycle() call set");
                assert!(k.cloning_policy == want_c, "the schema does not hold the cloning policy the last cloning call set");
                assert!(k.lints.is_empty() && k.error_handler.is_none() && k.registered_at.line == 10, "a lifecycle/cloning call changed another field of the constructor");
            }
            _ => panic!("the constructor is no longer a constructor"),
        }
        assert!(untouched_config(&bp.components[index_of(rot, 1)], 11), "a constructor modifier changed the config type registered next to it");
        assert!(untouched_prebuilt(&bp.components[index_of(rot, 2)], 12), "a constructor modifier changed the prebuilt type registered next to it");
        kani::cover!(want_l == Some(sch::Lifecycle::Transient) && want_c == Some(sch::CloningPolicy::NeverClone) && id == 2, "transient + never-clone at index 2");
        std::mem::forget(bp);
    }

    // @tier quick
    // @obligation lint settings of a constructor: any sequence of 2 calls out of allow / warn / deny on either lint: the schema's lint table holds, per lint, the setting of the LAST call that named it, and no entry for a lint that was never named
    // @bounds 2 calls, 2 lints x 3 settings
    // @functions RegisteredConstructor::allow, ::warn, ::deny, conversions::lint2lint
    // @timeout 1200
    #[kani::proof]
    #[kani::unwind(5)]
    fn c19_constructor_lints() {
        let mut bp = schema(0);
        let mut want: [Option<sch::LintSetting>; 2] = [None, None];
        let mut r = RegisteredConstructor { blueprint: &mut bp, component_id: 0 };
        let mut i = 0;
        while i < 2 {
            let unused: bool = kani::any();
            let s: u8 = kani::any();
            kani::assume(s < 3);
            let slot = if unused { 0 } else { 1 };
            r = match (s, unused) {
                (0, true) => { want[slot] = Some(sch::LintSetting::Allow); r.allow(Lint::Unused) }
                (0, false) => { want[slot] = Some(sch::LintSetting::Allow); r.allow(Lint::ErrorFallback) }
                (1, true) => { want[slot] = Some(sch::LintSetting::Warn); r.warn(Lint::Unused) }
                (1, false) => { want[slot] = Some(sch::LintSetting::Warn); r.warn(Lint::ErrorFallback) }
                (_, true) => { want[slot] = Some(sch::LintSetting::Deny); r.deny(Lint::Unused) }
                (_, false) => { want[slot] = Some(sch::LintSetting::Deny); r.deny(Lint::ErrorFallback) }
            };
            i += 1;
        }
        let _ = r;
        match &bp.components[0] {
            sch::Component::Constructor(k) => {
                assert!(k.lints.get(&sch::Lint::Unused).copied() == want[0], "the lint table does not hold the last setting given for Lint::Unused");
                assert!(k.lints.get(&sch::Lint::ErrorFallback).copied() == want[1], "the lint table does not hold the last setting given for Lint::ErrorFallback");
                assert!(k.lifecycle.is_none() && k.cloning_policy.is_none(), "a lint call changed the lifecycle or cloning policy");
            }
            _ => panic!("the constructor is no longer a constructor"),
        }
        kani::cover!(want[0] == Some(sch::LintSetting::Deny) && want[1] == Some(sch::LintSetting::Allow), "deny(unused) + allow(error_fallback)");
        std::mem::forget(bp);
    }

    // @tier quick
    // @obligation config-type and prebuilt-type modifiers: any sequence of 3 calls out of cloning(any) / clone_if_necessary() / never_clone() / default_if_missing() / required() / include_if_unused() on the config type, then one cloning call on the prebuilt type: each schema entry holds what the last call of each kind said, the other components are untouched
    // @bounds 3 components, 3 + 1 modifier calls
    // @functions RegisteredConfig::cloning, ::clone_if_necessary, ::never_clone, ::default_if_missing, ::required, ::include_if_unused, RegisteredPrebuilt::cloning, ::clone_if_necessary, ::never_clone
    // @timeout 900
    #[kani::proof]
    #[kani::unwind(5)]
    fn c19_config_and_prebuilt_modifiers() {
        let rot: u8 = kani::any();
        kani::assume(rot < 3);
        let mut bp = schema(rot);
        let (ci, pi) = (index_of(rot, 1), index_of(rot, 2));
        let mut want_c: Option<sch::CloningPolicy> = None;
        let mut want_d: Option<bool> = None;
        let mut want_i: Option<bool> = None;
        {
            let mut r = RegisteredConfig { blueprint: &mut bp, component_id: ci };
            let mut i = 0;
            while i < 3 {
                let k: u8 = kani::any();
                kani::assume(k < 6);
                r = match k {
                    0 => { let (c, w) = any_cloning(); want_c = Some(w); r.cloning(c) }
                    1 => { want_c = Some(sch::CloningPolicy::CloneIfNecessary); r.clone_if_necessary() }
                    2 => { want_c = Some(sch::CloningPolicy::NeverClone); r.never_clone() }
                    3 => { want_d = Some(true); r.default_if_missing() }
                    4 => { want_d = Some(false); r.required() }
                    _ => { want_i = Some(true); r.include_if_unused() }
                };
                i += 1;
            }
            let _ = r;
        }
        let want_p;
        {
            let r = RegisteredPrebuilt { blueprint: &mut bp, component_id: pi };
            let k: u8 = kani::any();
            kani::assume(k < 3);
            let _ = match k {
                0 => { let (c, w) = any_cloning(); want_p = Some(w); r.cloning(c) }
                1 => { want_p = Some(sch::CloningPolicy::CloneIfNecessary); r.clone_if_necessary() }
                _ => { want_p = Some(sch::CloningPolicy::NeverClone); r.never_clone() }
            };
        }
        assert!(bp.components.len() == 3, "a modifier call added or removed a component");
        match &bp.components[ci] {
            sch::Component::ConfigType(k) => {
                assert!(k.cloning_policy == want_c, "the config type does not hold the cloning policy the last cloning call set");
                assert!(k.default_if_missing == want_d, "the config type does not hold the last default_if_missing()/required() choice");
                assert!(k.include_if_unused == want_i, "include_if_unused() is not recorded (or recorded without being called)");
                assert!(k.registered_at.line == 11);
            }
            _ => panic!("the config type is no longer a config type"),
        }
        match &bp.components[pi] {
            sch::Component::PrebuiltType(k) => {
                assert!(k.cloning_policy == want_p, "the prebuilt type does not hold the cloning policy the cloning call set");
                assert!(k.registered_at.line == 12);
            }
            _ => panic!("the prebuilt type is no longer a prebuilt type"),
        }
        assert!(untouched_constructor(&bp.components[index_of(rot, 0)], 10), "a config/prebuilt modifier changed the constructor registered next to it");
        kani::cover!(want_d == Some(false) && want_c == Some(sch::CloningPolicy::NeverClone) && want_i == Some(true), "required + never-clone + include-if-unused");
        std::mem::forget(bp);
    }
}
