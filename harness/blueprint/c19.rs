
// ------------------------------------------------------------------------------------------------
// Verification harnesses for C19 (what you register is what the compiler sees), appended by /verif to
// the scratch copy of runtime/pavex/src/blueprint/conversions.rs (never part of /repo). The real,
// unshimmed `pavex` and `pavex_bp_schema` crates.
//
// Decided here - the part of the builder that is within reach of CBMC (DESIGN.md, C19): the
// *modifier* calls that follow a registration, on a schema value that already holds the component
// (built directly as a struct literal: the registration calls themselves, with their `String`
// coordinates and `Location::caller`, did not finish - probe P20):
//   constructor: lifecycle(_), cloning(_), clone_if_necessary(), never_clone(), allow/warn/deny(lint)
//   config type: cloning(_), clone_if_necessary(), never_clone(), default_if_missing(), required(),
//                include_if_unused()
//   prebuilt:    cloning(_), clone_if_necessary(), never_clone()
// and the enum conversions (conversions.rs) they go through. For every sequence of up to 3 such
// calls with arbitrary arguments, the schema ends up holding what the LAST call of each kind said
// (overriding calls), the component the calls were addressed to - and only that one - changed, and
// every other field is untouched.
// ------------------------------------------------------------------------------------------------
#[cfg(kani)]
mod verif_c19 {
    use crate::blueprint::{CloningPolicy, Lifecycle, Lint, RegisteredConfig, RegisteredConstructor, RegisteredPrebuilt};
    use pavex_bp_schema as sch;
    // nondeterminism layer: solver-chosen values under Kani; a seeded native search when a counterexample
    // has to be made concrete - and since this harness runs on the real, unshimmed crates, a failing
    // native run of the same harness IS the reproduction on the real code
    #[path = "@ND@"]
    mod nd;
    /// the line numbers of the `Location::caller` stub only exist under Kani (natively the real
    /// `caller_location` answers)
    const CHECK_LINES: bool = cfg!(not(test));

    fn loc(line: u32) -> sch::Location {
        sch::Location { line, column: 1, file: String::new() }
    }
    fn coords() -> sch::AnnotationCoordinates {
        sch::AnnotationCoordinates {
            id: String::new(),
            created_at: sch::CreatedAt { package_name: String::new(), package_version: String::new() },
            macro_name: String::new(),
        }
    }
    fn constructor(line: u32) -> sch::Component {
        sch::Component::Constructor(sch::Constructor {
            coordinates: coords(),
            lifecycle: None,
            cloning_policy: None,
            error_handler: None,
            lints: Default::default(),
            registered_at: loc(line),
        })
    }
    fn config(line: u32) -> sch::Component {
        sch::Component::ConfigType(sch::ConfigType {
            coordinates: coords(),
            cloning_policy: None,
            default_if_missing: None,
            include_if_unused: None,
            registered_at: loc(line),
        })
    }
    fn prebuilt(line: u32) -> sch::Component {
        sch::Component::PrebuiltType(sch::PrebuiltType { coordinates: coords(), cloning_policy: None, registered_at: loc(line) })
    }
    /// three components: [constructor, config, prebuilt] in a solver-chosen rotation, so that the
    /// component id the calls are addressed to is not always 0
    fn schema(rot: u8) -> sch::Blueprint {
        let components = match rot {
            0 => vec![constructor(10), config(11), prebuilt(12)],
            1 => vec![prebuilt(12), constructor(10), config(11)],
            _ => vec![config(11), prebuilt(12), constructor(10)],
        };
        sch::Blueprint { creation_location: loc(1), components }
    }
    fn index_of(rot: u8, what: u8) -> usize {
        // what: 0 constructor, 1 config, 2 prebuilt
        ((what + rot) % 3) as usize
    }
    /// four components - two of the kind the modifiers are addressed to (`what`: 0 constructor, 1 config,
    /// 2 prebuilt; lines 10 and 13) and one of each other kind (lines 11, 12) - in one of two orders:
    /// the addressed component is neither always the first of the blueprint nor the first of its kind
    fn component(what: u8, line: u32) -> sch::Component {
        match what {
            0 => constructor(line),
            1 => config(line),
            _ => prebuilt(line),
        }
    }
    fn schema4(what: u8, rot: bool) -> sch::Blueprint {
        let (a, b) = ((what + 1) % 3, (what + 2) % 3);
        let components = if rot {
            vec![component(a, 11), component(what, 10), component(b, 12), component(what, 13)]
        } else {
            vec![component(what, 10), component(a, 11), component(what, 13), component(b, 12)]
        };
        sch::Blueprint { creation_location: loc(1), components }
    }
    /// (index, kind, registration line) of the four components
    fn layout4(what: u8, rot: bool) -> [(usize, u8, u32); 4] {
        let (a, b) = ((what + 1) % 3, (what + 2) % 3);
        if rot { [(0, a, 11), (1, what, 10), (2, b, 12), (3, what, 13)] } else { [(0, what, 10), (1, a, 11), (2, what, 13), (3, b, 12)] }
    }
    /// index and line of copy `c` of the addressed kind
    fn target4(rot: bool, c: u8) -> (usize, u32) {
        match (rot, c) {
            (false, 0) => (0, 10),
            (false, _) => (2, 13),
            (true, 0) => (1, 10),
            (true, _) => (3, 13),
        }
    }
    fn others_untouched4(bp: &sch::Blueprint, what: u8, rot: bool, skip: usize) -> bool {
        let l = layout4(what, rot);
        let mut ok = true;
        let mut i = 0;
        while i < 4 {
            let (idx, kind, line) = l[i];
            if idx != skip {
                ok = ok
                    && match kind {
                        0 => untouched_constructor(&bp.components[idx], line),
                        1 => untouched_config(&bp.components[idx], line),
                        _ => untouched_prebuilt(&bp.components[idx], line),
                    };
            }
            i += 1;
        }
        ok
    }

    fn any_cloning() -> (CloningPolicy, sch::CloningPolicy) {
        if nd::any_bool() {
            (CloningPolicy::CloneIfNecessary, sch::CloningPolicy::CloneIfNecessary)
        } else {
            (CloningPolicy::NeverClone, sch::CloningPolicy::NeverClone)
        }
    }

    fn untouched_constructor(c: &sch::Component, line: u32) -> bool {
        matches!(c, sch::Component::Constructor(k) if k.lifecycle.is_none() && k.cloning_policy.is_none() && k.error_handler.is_none() && k.lints.is_empty() && k.registered_at.line == line)
    }
    fn untouched_config(c: &sch::Component, line: u32) -> bool {
        matches!(c, sch::Component::ConfigType(k) if k.cloning_policy.is_none() && k.default_if_missing.is_none() && k.include_if_unused.is_none() && k.registered_at.line == line)
    }
    fn untouched_prebuilt(c: &sch::Component, line: u32) -> bool {
        matches!(c, sch::Component::PrebuiltType(k) if k.cloning_policy.is_none() && k.registered_at.line == line)
    }

    // @tier quick
    // @obligation constructor modifiers on the real builder (RegisteredConstructor over a schema with three components, the constructor at a solver-chosen index): any sequence of 3 calls out of lifecycle(any) / cloning(any) / clone_if_necessary() / never_clone(): the schema's constructor holds the lifecycle and cloning policy of the LAST call of each kind, converted faithfully (Singleton stays Singleton, ...), nothing else about it changed, and the two other components are untouched
    // @bounds 4 components (2 constructors + 1 config type + 1 prebuilt type, 2 orders), 3 modifier calls, all argument values
    // @functions RegisteredConstructor::lifecycle, ::cloning, ::clone_if_necessary, ::never_clone, conversions::lifecycle2lifecycle, conversions::cloning2cloning
    // @timeout 900
    #[kani::proof]
    #[kani::unwind(5)]
    fn c19_constructor_lifecycle_and_cloning() {
        let rot: bool = nd::any_bool();
        let copy: u8 = nd::u8_below(2);
        let mut bp = schema4(0, rot);
        let (id, line) = target4(rot, copy);
        let mut want_l: Option<sch::Lifecycle> = None;
        let mut want_c: Option<sch::CloningPolicy> = None;
        let mut r = RegisteredConstructor { blueprint: &mut bp, component_id: id };
        let mut i = 0;
        while i < 3 {
            let k: u8 = nd::u8_below(4);
            r = match k {
                0 => {
                    let l: u8 = nd::u8_below(3);
                    match l {
                        0 => {
                            want_l = Some(sch::Lifecycle::Singleton);
                            r.lifecycle(Lifecycle::Singleton)
                        }
                        1 => {
                            want_l = Some(sch::Lifecycle::RequestScoped);
                            r.lifecycle(Lifecycle::RequestScoped)
                        }
                        _ => {
                            want_l = Some(sch::Lifecycle::Transient);
                            r.lifecycle(Lifecycle::Transient)
                        }
                    }
                }
                1 => {
                    let (c, w) = any_cloning();
                    want_c = Some(w);
                    r.cloning(c)
                }
                2 => {
                    want_c = Some(sch::CloningPolicy::CloneIfNecessary);
                    r.clone_if_necessary()
                }
                _ => {
                    want_c = Some(sch::CloningPolicy::NeverClone);
                    r.never_clone()
                }
            };
            i += 1;
        }
        let _ = r;
        assert!(bp.components.len() == 4, "a modifier call added or removed a component");
        match &bp.components[id] {
            sch::Component::Constructor(k) => {
                assert!(k.lifecycle == want_l, "the schema does not hold the lifecycle the last lifecycle() call set");
                assert!(k.cloning_policy == want_c, "the schema does not hold the cloning policy the last cloning call set");
                assert!(k.lints.is_empty() && k.error_handler.is_none() && k.registered_at.line == line, "a lifecycle/cloning call changed another field of the constructor");
            }
            _ => panic!("the constructor is no longer a constructor"),
        }
        assert!(others_untouched4(&bp, 0, rot, id), "a constructor modifier changed a component other than the one it was addressed to");
        kani::cover!(want_l == Some(sch::Lifecycle::Transient) && want_c == Some(sch::CloningPolicy::NeverClone) && id == 3, "transient + never-clone on the second constructor, at index 3");
        std::mem::forget(bp);
    }

    fn lints_body(calls: usize, prepopulated: bool) {
        let mut bp = schema(0);
        let mut want: [Option<sch::LintSetting>; 2] = [None, None];
        if prepopulated {
            // an earlier allow(Lint::Unused), written down concretely
            if let sch::Component::Constructor(k) = &mut bp.components[0] {
                k.lints.insert(sch::Lint::Unused, sch::LintSetting::Allow);
            }
            want[0] = Some(sch::LintSetting::Allow);
        }
        let mut r = RegisteredConstructor { blueprint: &mut bp, component_id: 0 };
        let mut i = 0;
        while i < calls {
            let unused: bool = nd::any_bool();
            let s: u8 = nd::u8_below(3);
            let slot = if unused { 0 } else { 1 };
            r = match (s, unused) {
                (0, true) => { want[slot] = Some(sch::LintSetting::Allow); r.allow(Lint::Unused) }
                (0, false) => { want[slot] = Some(sch::LintSetting::Allow); r.allow(Lint::ErrorFallback) }
                (1, true) => { want[slot] = Some(sch::LintSetting::Warn); r.warn(Lint::Unused) }
                (1, false) => { want[slot] = Some(sch::LintSetting::Warn); r.warn(Lint::ErrorFallback) }
                (_, true) => { want[slot] = Some(sch::LintSetting::Deny); r.deny(Lint::Unused) }
                (_, false) => { want[slot] = Some(sch::LintSetting::Deny); r.deny(Lint::ErrorFallback) }
            };
            i += 1;
        }
        let _ = r;
        match &bp.components[0] {
            sch::Component::Constructor(k) => {
                assert!(k.lints.get(&sch::Lint::Unused).copied() == want[0], "the lint table does not hold the last setting given for Lint::Unused");
                assert!(k.lints.get(&sch::Lint::ErrorFallback).copied() == want[1], "the lint table does not hold the last setting given for Lint::ErrorFallback");
                assert!(k.lifecycle.is_none() && k.cloning_policy.is_none(), "a lint call changed the lifecycle or cloning policy");
            }
            _ => panic!("the constructor is no longer a constructor"),
        }
        kani::cover!(want[0] == Some(sch::LintSetting::Deny), "deny(unused)");
        kani::cover!(want[1] == Some(sch::LintSetting::Warn), "warn(error_fallback)");
        std::mem::forget(bp);
    }

    // @tier thorough
    // @exploratory true
    // @obligation (exploratory: a single BTreeMap insertion with a symbolic key ran CBMC out of memory at 14 GB; lints are outside the claim) lint settings of a constructor: one call out of allow / warn / deny on either lint: the schema's lint table holds exactly that setting for that lint (converted by lint2lint) and no entry for the other lint
    // @bounds 1 call, 2 lints x 3 settings
    // @functions RegisteredConstructor::allow, ::warn, ::deny, conversions::lint2lint
    // @timeout 600
    // @mem 10
    #[kani::proof]
    #[kani::unwind(5)]
    fn c19_constructor_lints() {
        lints_body(1, false);
    }

    // @tier thorough
    // @exploratory true
    // @obligation (exploratory, see c19_constructor_lints) an overriding lint call: the constructor already carries allow(Lint::Unused) (written into the schema concretely); one more call out of allow / warn / deny on either lint: a call that names Lint::Unused replaces the earlier setting (the LAST call wins), a call that names the other lint leaves it alone
    // @bounds 1 symbolic call on a lint table with one entry
    // @functions RegisteredConstructor::allow, ::warn, ::deny, conversions::lint2lint
    // @timeout 600
    // @mem 10
    #[kani::proof]
    #[kani::unwind(5)]
    fn c19_constructor_lints_override_one() {
        lints_body(1, true);
    }

    // @tier thorough
    // @exploratory true
    // @obligation as c19_constructor_lints with two calls: per lint the setting of the LAST call that named it (BTreeMap insertion into a non-empty map is at the edge of what CBMC finishes: exploratory)
    // @bounds 2 calls, 2 lints x 3 settings
    // @functions RegisteredConstructor::allow, ::warn, ::deny, conversions::lint2lint
    // @timeout 600
    // @mem 10
    #[kani::proof]
    #[kani::unwind(5)]
    fn c19_constructor_lints_override() {
        lints_body(2, false);
    }

    // @tier quick
    // @obligation config-type modifiers: any sequence of 3 calls out of cloning(any) / clone_if_necessary() / never_clone() / default_if_missing() / required() / include_if_unused() on either of two config types of a four-component schema: the addressed entry holds what the last call of each kind said, the three other components - the other config type included - are untouched
    // @bounds 4 components (2 config types + 1 constructor + 1 prebuilt type, 2 orders), 3 modifier calls
    // @functions RegisteredConfig::cloning, ::clone_if_necessary, ::never_clone, ::default_if_missing, ::required, ::include_if_unused, conversions::cloning2cloning
    // @timeout 900
    #[kani::proof]
    #[kani::unwind(5)]
    fn c19_config_modifiers() {
        let rot: bool = nd::any_bool();
        let copy: u8 = nd::u8_below(2);
        let mut bp = schema4(1, rot);
        let (ci, cline) = target4(rot, copy);
        let mut want_c: Option<sch::CloningPolicy> = None;
        let mut want_d: Option<bool> = None;
        let mut want_i: Option<bool> = None;
        {
            let mut r = RegisteredConfig { blueprint: &mut bp, component_id: ci };
            let mut i = 0;
            while i < 3 {
                let k: u8 = nd::u8_below(6);
                r = match k {
                    0 => { let (c, w) = any_cloning(); want_c = Some(w); r.cloning(c) }
                    1 => { want_c = Some(sch::CloningPolicy::CloneIfNecessary); r.clone_if_necessary() }
                    2 => { want_c = Some(sch::CloningPolicy::NeverClone); r.never_clone() }
                    3 => { want_d = Some(true); r.default_if_missing() }
                    4 => { want_d = Some(false); r.required() }
                    _ => { want_i = Some(true); r.include_if_unused() }
                };
                i += 1;
            }
            let _ = r;
        }
        assert!(bp.components.len() == 4, "a modifier call added or removed a component");
        match &bp.components[ci] {
            sch::Component::ConfigType(k) => {
                assert!(k.cloning_policy == want_c, "the config type does not hold the cloning policy the last cloning call set");
                assert!(k.default_if_missing == want_d, "the config type does not hold the last default_if_missing()/required() choice");
                assert!(k.include_if_unused == want_i, "include_if_unused() is not recorded (or recorded without being called)");
                assert!(k.registered_at.line == cline);
            }
            _ => panic!("the config type is no longer a config type"),
        }
        assert!(others_untouched4(&bp, 1, rot, ci), "a config modifier changed a component other than the one it was addressed to");
        kani::cover!(want_d == Some(false) && want_c == Some(sch::CloningPolicy::NeverClone) && want_i == Some(true) && ci == 3, "required + never-clone + include-if-unused on the second config type");
        std::mem::forget(bp);
    }

    // @tier quick
    // @obligation prebuilt-type modifiers: 2 calls out of cloning(any) / clone_if_necessary() / never_clone() on either of two prebuilt types of a four-component schema: the addressed entry holds the policy of the last call, the three other components are untouched
    // @bounds 4 components (2 prebuilt types + 1 constructor + 1 config type, 2 orders), 2 modifier calls
    // @functions RegisteredPrebuilt::cloning, ::clone_if_necessary, ::never_clone, conversions::cloning2cloning
    // @timeout 900
    #[kani::proof]
    #[kani::unwind(5)]
    fn c19_prebuilt_modifiers() {
        let rot: bool = nd::any_bool();
        let copy: u8 = nd::u8_below(2);
        let mut bp = schema4(2, rot);
        let (pi, pline) = target4(rot, copy);
        let mut want_p: Option<sch::CloningPolicy> = None;
        {
            let mut r = RegisteredPrebuilt { blueprint: &mut bp, component_id: pi };
            let mut i = 0;
            while i < 2 {
                let k: u8 = nd::u8_below(3);
                r = match k {
                    0 => { let (c, w) = any_cloning(); want_p = Some(w); r.cloning(c) }
                    1 => { want_p = Some(sch::CloningPolicy::CloneIfNecessary); r.clone_if_necessary() }
                    _ => { want_p = Some(sch::CloningPolicy::NeverClone); r.never_clone() }
                };
                i += 1;
            }
            let _ = r;
        }
        assert!(bp.components.len() == 4, "a modifier call added or removed a component");
        match &bp.components[pi] {
            sch::Component::PrebuiltType(k) => {
                assert!(k.cloning_policy == want_p, "the prebuilt type does not hold the cloning policy the last cloning call set");
                assert!(k.registered_at.line == pline);
            }
            _ => panic!("the prebuilt type is no longer a prebuilt type"),
        }
        assert!(others_untouched4(&bp, 2, rot, pi), "a prebuilt modifier changed a component other than the one it was addressed to");
        kani::cover!(want_p == Some(sch::CloningPolicy::CloneIfNecessary) && pi == 3, "clone-if-necessary on the second prebuilt type");
        std::mem::forget(bp);
    }

    // ---------------------------------------------------------------------------------------------
    // nesting: prefix / domain / nest, with overriding calls (prefix-after-prefix)
    // ---------------------------------------------------------------------------------------------
    static mut LINE: u32 = 100;
    /// `Location::caller()` needs `caller_location`, which Kani does not support: every call gets the
    /// next line number, so "the location recorded is the one of the call that set the value" is checkable
    #[track_caller]
    fn loc_stub() -> sch::Location {
        unsafe {
            LINE += 1;
            sch::Location { line: LINE, column: 7, file: String::new() }
        }
    }
    fn str_is(a: &str, b: &str) -> bool {
        let (a, b) = (a.as_bytes(), b.as_bytes());
        if a.len() != b.len() {
            return false;
        }
        let mut i = 0;
        while i < a.len() {
            if a[i] != b[i] {
                return false;
            }
            i += 1;
        }
        true
    }

    // @tier quick
    // @obligation nesting through the real Blueprint::prefix / Blueprint::domain / RoutingModifiers::{prefix, domain, nest}: any sequence of 1-3 prefix(\"/a\"|\"/b\") / domain(\"x.io\"|\"y.io\") calls followed by nest(child): the parent gains exactly one NestedBlueprint component, after the existing ones (which are untouched), holding the child's components intact and in order, the prefix of the LAST prefix call (none if there was none) with that call's location, the domain of the last domain call with that call's location, and the location of the nest call
    // @bounds parent with 3 components, child with 2, 1-3 modifier calls, two candidate prefixes and domains
    // @functions Blueprint::prefix, Blueprint::domain, RoutingModifiers::prefix, ::domain, ::nest, ::empty
    // @timeout 1200
    #[kani::proof]
    #[kani::unwind(6)]
    #[kani::stub(pavex_bp_schema::Location::caller, loc_stub)]
    fn c19_nesting_prefix_domain() {
        use crate::blueprint::RoutingModifiers;
        let mut parent = crate::Blueprint { schema: schema(0) };
        let child = crate::Blueprint { schema: sch::Blueprint { creation_location: loc(2), components: vec![prebuilt(20), constructor(21)] } };
        let mut want_p: Option<(&str, u32)> = None;
        let mut want_d: Option<(&str, u32)> = None;
        let n: u8 = 1 + nd::u8_below(3);
        // the first call goes through the public entry point on Blueprint
        let first_is_prefix: bool = nd::any_bool();
        let alt: bool = nd::any_bool();
        let mut m: RoutingModifiers<'_> = if first_is_prefix {
            let p = if alt { "/a" } else { "/b" };
            let r = parent.prefix(p);
            want_p = Some((p, unsafe { LINE }));
            r
        } else {
            let d = if alt { "x.io" } else { "y.io" };
            let r = parent.domain(d);
            want_d = Some((d, unsafe { LINE }));
            r
        };
        let mut i = 1;
        while i < 3 {
            if i < n {
                let is_prefix: bool = nd::any_bool();
                let alt: bool = nd::any_bool();
                if is_prefix {
                    let p = if alt { "/a" } else { "/b" };
                    m = m.prefix(p);
                    want_p = Some((p, unsafe { LINE }));
                } else {
                    let d = if alt { "x.io" } else { "y.io" };
                    m = m.domain(d);
                    want_d = Some((d, unsafe { LINE }));
                }
            }
            i += 1;
        }
        m.nest(child);
        let nest_line = unsafe { LINE };
        let comps = &parent.schema.components;
        assert!(comps.len() == 4, "nest() did not add exactly one component");
        assert!(untouched_constructor(&comps[0], 10) && untouched_config(&comps[1], 11) && untouched_prebuilt(&comps[2], 12), "nesting changed or reordered the components registered before it");
        match &comps[3] {
            sch::Component::NestedBlueprint(nb) => {
                assert!(!CHECK_LINES || nb.nested_at.line == nest_line, "the nesting location is not the one of the nest() call");
                match (&nb.path_prefix, want_p) {
                    (None, None) => {}
                    (Some(pp), Some((p, line))) => {
                        assert!(str_is(&pp.path_prefix, p), "the nested blueprint does not carry the prefix of the last prefix() call");
                        assert!(!CHECK_LINES || pp.registered_at.line == line, "the prefix location is not the one of the last prefix() call");
                    }
                    _ => panic!("a prefix appeared from nowhere or was lost"),
                }
                match (&nb.domain, want_d) {
                    (None, None) => {}
                    (Some(dd), Some((d, line))) => {
                        assert!(str_is(&dd.domain, d), "the nested blueprint does not carry the domain of the last domain() call");
                        assert!(!CHECK_LINES || dd.registered_at.line == line, "the domain location is not the one of the last domain() call");
                    }
                    _ => panic!("a domain guard appeared from nowhere or was lost"),
                }
                assert!(nb.blueprint.creation_location.line == 2, "the nested blueprint lost its creation location");
                assert!(nb.blueprint.components.len() == 2, "the nested blueprint lost or gained components");
                assert!(untouched_prebuilt(&nb.blueprint.components[0], 20) && untouched_constructor(&nb.blueprint.components[1], 21), "the nested blueprint's components are not intact and in order");
            }
            _ => panic!("nest() registered something that is not a nested blueprint"),
        }
        kani::cover!(n == 3 && want_p.is_some() && want_d.is_some(), "three calls, prefix and domain both set");
        kani::cover!(n == 2 && want_d.is_none(), "prefix after prefix");
        std::mem::forget(parent);
    }

    #[cfg(test)]
    mod native_search {
        use super::*;
        fn reset() {}
        macro_rules! ns { ($($h:ident),*) => { $( #[test] fn $h() { nd::search(stringify!($h), super::$h, reset) } )* } }
        ns!(c19_constructor_lifecycle_and_cloning, c19_config_modifiers, c19_prebuilt_modifiers, c19_nesting_prefix_domain);
    }
}
