// ------------------------------------------------------------------------------------------------
// Verification harnesses for C14 (a buffered request body never exceeds the configured size limit).
//
// The real `BufferedBody::extract` / `_extract_with_limit` (runtime/pavex/src/request/body/
// buffered_body.rs, de-asynced) together with the real `limit.rs`, `errors.rs`, `request_head.rs`
// and the real `ubyte` crate run against contract shims of `bytes`, `http`, `http-body`,
// `http-body-util` and `hyper` (see /verif/shims/c14). Decided: Pavex's own part of the guarantee -
// which header it reads and how it parses it, the comparison against the limit, the limit it hands
// to `Limited`, that the limited body (not the raw one) is what gets collected, how the two error
// sources are told apart and what the error reports. `http_body_util::Limited`'s own enforcement
// and hyper's framing are the trusted base (the shim implements their documented contract).
// ------------------------------------------------------------------------------------------------
#![allow(static_mut_refs, dead_code, unused_imports)]

#[path = "nd.rs"]
mod nd;
use super::BufferedBody;
use crate::request::RequestHead;
use crate::request::body::errors::ExtractBufferedBodyError;
use crate::request::body::raw_body::{MAX_FRAMES, PULLED, RawIncomingBody};
use crate::request::body::BodySizeLimit;
use bytes::Bytes;
use http::{HeaderMap, HeaderValue};
use ubyte::ByteUnit;

const MAX_FRAME_LEN: usize = 3;
const MAX_HEADER_LEN: usize = 4;

struct World {
    /// None = BodySizeLimit::Disabled
    limit: Option<u64>,
    /// Content-Length header: None = absent
    header: Option<([u8; MAX_HEADER_LEN], usize)>,
    /// another header stored before it (position in the map must not matter)
    other_first: bool,
    frames: [([u8; MAX_FRAME_LEN], usize); MAX_FRAMES],
    n: usize,
    error_at: usize,
    trailers: bool,
}

fn any_world(with_errors: bool, max_frame_len: usize) -> World {
    let limit = if nd::any_bool() { Some(nd::any_u64()) } else { None };
    let header = if nd::any_bool() {
        let len = nd::u8_below(MAX_HEADER_LEN as u8 + 1) as usize;
        let mut b = [0u8; MAX_HEADER_LEN];
        let mut i = 0;
        while i < MAX_HEADER_LEN {
            let c = nd::any_u8();
            // native search only (making a counterexample concrete): prefer bytes a header can carry
            #[cfg(test)]
            let c = if nd::searching() { b"0123456789+ x1"[c as usize % 14] } else { c };
            b[i] = c;
            i += 1;
        }
        Some((b, len))
    } else {
        None
    };
    let n = nd::u8_below(MAX_FRAMES as u8 + 1) as usize;
    let mut frames = [([0u8; MAX_FRAME_LEN], 0usize); MAX_FRAMES];
    let mut i = 0;
    while i < MAX_FRAMES {
        let len = nd::u8_below(max_frame_len as u8 + 1) as usize;
        let mut j = 0;
        while j < MAX_FRAME_LEN {
            frames[i].0[j] = nd::any_u8();
            j += 1;
        }
        frames[i].1 = len;
        i += 1;
    }
    let error_at = if with_errors { nd::u8_below(MAX_FRAMES as u8 + 1) as usize } else { MAX_FRAMES };
    World { limit, header, other_first: nd::any_bool(), frames, n, error_at, trailers: nd::any_bool() }
}

fn trace_world(w: &World) {
    nd::trace(|| {
        let hdr = match &w.header {
            None => "null".to_string(),
            Some((b, l)) => format!("{:?}", &b[..*l]),
        };
        let mut fr = Vec::new();
        for i in 0..w.n {
            fr.push(format!("{:?}", &w.frames[i].0[..w.frames[i].1]));
        }
        format!(
            "{{\"kind\":\"c14\",\"limit\":{},\"header\":{},\"other_first\":{},\"frames\":[{}],\"error_at\":{},\"trailers\":{}}}",
            match w.limit { Some(l) => l.to_string(), None => "null".to_string() },
            hdr, w.other_first, fr.join(","),
            if w.error_at < w.n { w.error_at.to_string() } else { "null".to_string() },
            w.trailers
        )
    });
}

/// What the documentation says a Content-Length value is: a decimal number (the error type documents
/// "None if the header was missing or invalid"). Rust's `usize::from_str` also takes one leading '+'.
fn ref_content_length(w: &World) -> Option<u64> {
    let (b, len) = w.header?;
    if len == 0 {
        return None;
    }
    let mut i = 0;
    if b[0] == b'+' {
        if len == 1 {
            return None;
        }
        i = 1;
    }
    let mut v: u64 = 0;
    while i < len {
        let c = b[i];
        if c < b'0' || c > b'9' {
            return None;
        }
        v = v * 10 + (c - b'0') as u64;
        i += 1;
    }
    Some(v)
}

fn build(w: &World) -> (RequestHead, RawIncomingBody) {
    let mut headers = HeaderMap::new();
    if w.other_first {
        headers.append(http::header::CONTENT_TYPE, HeaderValue::from_static("9"));
    }
    if let Some((b, len)) = &w.header {
        headers.append(http::header::CONTENT_LENGTH, HeaderValue::from_bytes_unchecked(&b[..*len]));
    }
    let head = RequestHead { method: http::Method::POST, target: http::Uri, version: http::Version::HTTP_11, headers };
    let mut frames = [Bytes::new(); MAX_FRAMES];
    let mut i = 0;
    while i < MAX_FRAMES {
        frames[i] = Bytes::copy_from_slice(&w.frames[i].0[..w.frames[i].1]);
        i += 1;
    }
    (head, RawIncomingBody { frames, n: w.n, error_at: w.error_at, trailers: w.trailers, next: 0 })
}

/// the bytes the client sent (all frames), and the length of the prefix that arrives before a
/// transport error
fn sent(w: &World) -> ([u8; MAX_FRAMES * MAX_FRAME_LEN], usize) {
    let mut out = [0u8; MAX_FRAMES * MAX_FRAME_LEN];
    let mut k = 0;
    let mut i = 0;
    while i < w.n {
        let mut j = 0;
        while j < w.frames[i].1 {
            out[k] = w.frames[i].0[j];
            k += 1;
            j += 1;
        }
        i += 1;
    }
    (out, k)
}

fn same_bytes(b: &Bytes, exp: &[u8], n: usize) -> bool {
    if b.len() != n {
        return false;
    }
    let got: &[u8] = b;
    let mut i = 0;
    while i < n {
        if got[i] != exp[i] {
            return false;
        }
        i += 1;
    }
    true
}

fn run(w: &World) -> Result<BufferedBody, ExtractBufferedBodyError> {
    let (head, body) = build(w);
    unsafe {
        PULLED = 0;
        http_body_util::verif::BUFFERED = 0;
        http_body_util::verif::LIMIT_SEEN = None;
    }
    let lim = match w.limit {
        Some(l) => BodySizeLimit::Enabled { max_size: ByteUnit::from(l) },
        None => BodySizeLimit::Disabled,
    };
    BufferedBody::extract(&head, body, lim)
}

fn intact_transport(max_frame_len: usize) {
    let w = any_world(false, max_frame_len);
    trace_world(&w);
    let (exp, total) = sent(&w);
    let cl = ref_content_length(&w);
    let r = run(&w);
    // a header that is present but not a decimal number ("garbage"): only the safety half is asserted
    let garbage = w.header.is_some() && cl.is_none();
    match (&r, w.limit) {
        (Ok(b), Some(n)) => {
            assert!(b.bytes.len() as u64 <= n, "a body larger than the limit was handed to the application");
            assert!(same_bytes(&b.bytes, &exp, total), "the buffered body differs from what the client sent");
        }
        (Ok(b), None) => {
            assert!(same_bytes(&b.bytes, &exp, total), "the buffered body differs from what the client sent (no limit)");
        }
        (Err(ExtractBufferedBodyError::SizeLimitExceeded(_)), Some(n)) => {
            assert!(garbage || total as u64 > n || cl.map_or(false, |c| c > n), "size-limit error although body and Content-Length are within the limit");
        }
        (Err(_), _) => panic!("an intact body was refused with something else than a size-limit error (or without any limit)"),
    }
    // the bodies of this harness are tiny; what protects the application from a LARGE body is the budget
    // that first-party code hands to the length-limited reader: a budget above N lets every body between
    // N and the budget through (replayed natively with a body of N + 1 bytes)
    if let (Some(n), Some(seen)) = (w.limit, unsafe { http_body_util::verif::LIMIT_SEEN }) {
        assert!(seen as u64 <= n, "the byte budget handed to the length-limited reader exceeds the configured limit");
    }
    kani::cover!(r.is_ok() && w.limit == Some(total as u64) && total > 0, "body of exactly the limit accepted");
    kani::cover!(r.is_err() && cl.is_none() && w.limit.is_some(), "limit hit while reading, no usable Content-Length");
    kani::cover!(r.is_err() && w.limit.map_or(false, |n| cl.map_or(false, |c| c <= n)), "Content-Length understates the body");
    kani::cover!(r.is_err() && w.limit.map_or(false, |n| total as u64 <= n), "Content-Length overstates the body");
    kani::cover!(r.is_ok() && w.limit.is_none() && total == MAX_FRAMES * max_frame_len, "no limit, longest body");
    std::mem::forget(r);
}

fn failing_transport(max_frame_len: usize) {
    let w = any_world(true, max_frame_len);
    nd::assume(w.error_at < w.n);
    trace_world(&w);
    let cl = ref_content_length(&w);
    let r = run(&w);
    assert!(r.is_err(), "a body whose transport failed was returned as if complete");
    kani::cover!(matches!(r, Err(ExtractBufferedBodyError::UnexpectedBufferError(_))), "transport error surfaced");
    kani::cover!(matches!(r, Err(ExtractBufferedBodyError::SizeLimitExceeded(_))) && cl.is_none(), "limit hit before the transport error");
    std::mem::forget(r);
}

// @tier quick
// @obligation intact transport, any limit (or none), any Content-Length header (absent / any 0..=4 bytes, garbage included), any split of the body into <=3 frames: Ok(b) implies b is byte-identical to what was sent and, with a limit N, |b| <= N; every refusal is a SizeLimitExceeded error; with an absent or numeric Content-Length the request is refused only if the body is longer than N or the Content-Length is larger than N - a body of exactly N bytes is accepted; without a limit the body is always returned
// @bounds <=3 data frames of <=2 bytes (+ optional trailers frame), limit any u64 or disabled, Content-Length value any <=4 bytes (second header before it or not)
// @functions BufferedBody::extract, BufferedBody::_extract_with_limit, BodySizeLimit, SizeLimitExceeded, ExtractBufferedBodyError::from
// @timeout 1500
// @mem 28
#[kani::proof]
#[kani::unwind(8)]
#[kani::stub(std::fmt::format, fmt_stub)]
fn c14_intact_transport() {
    intact_transport(2)
}

// @tier quick
// @obligation failing transport (one frame replaced by an error): extraction never returns Ok (a truncated body is not "what the client sent")
// @bounds frames as c14_intact_transport, error at any frame position
// @functions BufferedBody::extract, BufferedBody::_extract_with_limit
// @timeout 1500
// @mem 28
#[kani::proof]
#[kani::unwind(8)]
#[kani::stub(std::fmt::format, fmt_stub)]
fn c14_failing_transport() {
    failing_transport(2)
}

// @tier thorough
// @obligation intact transport, any limit (or none), any Content-Length header (absent / any 0..=4 bytes, garbage included), any split of the body into <=3 frames: Ok(b) implies b is byte-identical to what was sent and, with a limit N, |b| <= N; every refusal is a SizeLimitExceeded error; with an absent or numeric Content-Length the request is refused only if the body is longer than N or the Content-Length is larger than N - a body of exactly N bytes is accepted; without a limit the body is always returned
// @bounds <=3 data frames of <=3 bytes (+ optional trailers frame), limit any u64 or disabled, Content-Length value any <=4 bytes (second header before it or not)
// @functions BufferedBody::extract, BufferedBody::_extract_with_limit, BodySizeLimit, SizeLimitExceeded, ExtractBufferedBodyError::from
// @timeout 1500
// @mem 28
#[kani::proof]
#[kani::unwind(11)]
#[kani::stub(std::fmt::format, fmt_stub)]
fn c14_intact_transport_3x3() {
    intact_transport(3)
}

// @tier thorough
// @obligation failing transport (one frame replaced by an error): extraction never returns Ok (a truncated body is not "what the client sent")
// @bounds frames as c14_intact_transport_3x3, error at any frame position
// @functions BufferedBody::extract, BufferedBody::_extract_with_limit
// @timeout 1500
// @mem 28
#[kani::proof]
#[kani::unwind(11)]
#[kani::stub(std::fmt::format, fmt_stub)]
fn c14_failing_transport_3x3() {
    failing_transport(3)
}

fn fmt_stub(_a: std::fmt::Arguments<'_>) -> String {
    String::new()
}

#[cfg(test)]
mod native_search {
    use super::*;
    fn reset() {}
    #[test]
    fn c14_intact_transport() { nd::search("c14_intact_transport", super::c14_intact_transport, reset) }
    #[test]
    fn c14_failing_transport() { nd::search("c14_failing_transport", super::c14_failing_transport, reset) }
    #[test]
    fn c14_intact_transport_3x3() { nd::search("c14_intact_transport_3x3", super::c14_intact_transport_3x3, reset) }
    #[test]
    fn c14_failing_transport_3x3() { nd::search("c14_failing_transport_3x3", super::c14_failing_transport_3x3, reset) }
}
