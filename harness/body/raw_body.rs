// Stand-in for runtime/pavex/src/request/body/raw_body.rs (a `pin_project` wrapper around
// `hyper::body::Incoming`, which only a live hyper connection can build): the transport body as a
// finite sequence of frames chosen by the harness. It implements the (de-asynced) `Body` contract of
// the http-body shim: frames in order, optionally a transport error in place of one frame, optionally
// a trailers frame at the end.
use bytes::Bytes;
use http_body::{Body, Frame};

pub const MAX_FRAMES: usize = 3;

#[derive(Debug)]
pub struct TransportError;
impl std::fmt::Display for TransportError {
    fn fmt(&self, f: &mut std::fmt::Formatter<'_>) -> std::fmt::Result {
        f.write_str("transport error")
    }
}
impl std::error::Error for TransportError {}

#[derive(Debug, Clone, Copy)]
pub struct RawIncomingBody {
    pub frames: [Bytes; MAX_FRAMES],
    pub n: usize,
    /// index of the frame that is replaced by a transport error (>= n: none)
    pub error_at: usize,
    pub trailers: bool,
    pub next: usize,
}

impl Body for RawIncomingBody {
    type Data = Bytes;
    type Error = TransportError;
    fn next_frame(&mut self) -> Option<Result<Frame<Bytes>, TransportError>> {
        let i = self.next;
        if i < self.n {
            self.next += 1;
            unsafe { PULLED += 1 };
            if i == self.error_at {
                // an error ends the body
                self.next = MAX_FRAMES + 2;
                return Some(Err(TransportError));
            }
            return Some(Ok(Frame::data(self.frames[i])));
        }
        if i == self.n && self.trailers {
            self.next += 1;
            return Some(Ok(Frame::Trailers));
        }
        None
    }
}
/// number of frames taken from the transport since the harness reset it
pub static mut PULLED: usize = 0;
