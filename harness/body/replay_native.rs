
// ------------------------------------------------------------------------------------------------
// Native replay of a C14 counterexample against the REAL pavex crate (appended by /verif to the
// scratch copy of buffered_body.rs; never part of /repo). Real `bytes`, `http`, `http-body-util`,
// `hyper`, tokio. The script (JSON, path in $VERIF_C14_SCRIPT) is what the solver-decided harness
// printed: {"limit": N|null, "header": [bytes]|null, "other_first": bool, "frames": [[bytes]..],
// "error_at": i|null, "trailers": bool}.
//  * limit = N: the real `_extract_with_limit` is driven with a hand-written `Body` that yields
//    exactly those frames (so a lying or garbage Content-Length can be replayed, which hyper itself
//    would refuse to deliver);
//  * limit = null: the public `BufferedBody::extract` is driven with a real `hyper::body::Incoming`
//    obtained from a real HTTP/1.1 connection over loopback whose client writes one chunk per frame.
// Prints `C14-REPLAY REPRODUCED ...` when the real code breaks the property on that input.
// ------------------------------------------------------------------------------------------------
#[cfg(test)]
mod verif_replay_c14 {
    use super::BufferedBody;
    use crate::request::RequestHead;
    use crate::request::body::errors::ExtractBufferedBodyError;
    use crate::request::body::{BodySizeLimit, RawIncomingBody};
    use bytes::Bytes;
    use http::HeaderMap;
    use std::pin::Pin;
    use std::task::{Context, Poll};
    use ubyte::ToByteUnit;

    struct Frames {
        frames: Vec<Vec<u8>>,
        error_at: Option<usize>,
        trailers: bool,
        next: usize,
    }
    #[derive(Debug)]
    struct TransportError;
    impl std::fmt::Display for TransportError {
        fn fmt(&self, f: &mut std::fmt::Formatter<'_>) -> std::fmt::Result {
            f.write_str("transport error")
        }
    }
    impl std::error::Error for TransportError {}
    impl hyper::body::Body for Frames {
        type Data = Bytes;
        type Error = TransportError;
        fn poll_frame(mut self: Pin<&mut Self>, _cx: &mut Context<'_>) -> Poll<Option<Result<hyper::body::Frame<Bytes>, TransportError>>> {
            let i = self.next;
            self.next += 1;
            if i < self.frames.len() {
                if Some(i) == self.error_at {
                    self.next = usize::MAX / 2;
                    return Poll::Ready(Some(Err(TransportError)));
                }
                return Poll::Ready(Some(Ok(hyper::body::Frame::data(Bytes::from(self.frames[i].clone())))));
            }
            if i == self.frames.len() && self.trailers {
                return Poll::Ready(Some(Ok(hyper::body::Frame::trailers(HeaderMap::new()))));
            }
            Poll::Ready(None)
        }
    }

    fn ref_content_length(h: &Option<Vec<u8>>) -> Option<u64> {
        let b = h.as_ref()?;
        let s = std::str::from_utf8(b).ok()?;
        let d = s.strip_prefix('+').unwrap_or(s);
        if d.is_empty() || !d.bytes().all(|c| c.is_ascii_digit()) {
            return None;
        }
        d.parse::<u64>().ok()
    }

    fn bytes_of(v: &serde_json::Value) -> Vec<u8> {
        v.as_array().map(|a| a.iter().map(|x| x.as_u64().unwrap_or(0) as u8).collect()).unwrap_or_default()
    }

    /// `content_length`: send the body with a (truthful) Content-Length header instead of chunked encoding
    async fn extract_over_loopback(frames: Vec<Vec<u8>>, error_at: Option<usize>, trailers: bool, limit: BodySizeLimit, content_length: bool) -> Result<Vec<u8>, ExtractBufferedBodyError> {
        use std::io::Write;
        let listener = tokio::net::TcpListener::bind("127.0.0.1:0").await.expect("bind");
        let addr = listener.local_addr().expect("addr");
        let client = std::thread::spawn(move || {
            let mut s = std::net::TcpStream::connect(addr).expect("connect");
            s.set_nodelay(true).ok();
            if content_length {
                let total: usize = frames.iter().map(|f| f.len()).sum();
                s.write_all(format!("POST / HTTP/1.1\r\nHost: x\r\nContent-Length: {total}\r\n\r\n").as_bytes()).unwrap();
                for f in frames.iter() {
                    let _ = s.write_all(f);
                    let _ = s.flush();
                    std::thread::sleep(std::time::Duration::from_millis(15));
                }
                let mut buf = [0u8; 256];
                use std::io::Read;
                let _ = s.read(&mut buf);
                return;
            }
            s.write_all(b"POST / HTTP/1.1\r\nHost: x\r\nTransfer-Encoding: chunked\r\n\r\n").unwrap();
            for (i, f) in frames.iter().enumerate() {
                if Some(i) == error_at {
                    // the transport fails: half a chunk header, then the connection goes away
                    let _ = s.write_all(b"5\r\nab");
                    let _ = s.flush();
                    drop(s);
                    return;
                }
                if f.is_empty() {
                    continue; // a zero-length chunk would terminate the body
                }
                s.write_all(format!("{:x}\r\n", f.len()).as_bytes()).unwrap();
                s.write_all(f).unwrap();
                s.write_all(b"\r\n").unwrap();
                s.flush().unwrap();
                std::thread::sleep(std::time::Duration::from_millis(15));
            }
            if trailers {
                s.write_all(b"0\r\nX-T: 1\r\n\r\n").unwrap();
            } else {
                s.write_all(b"0\r\n\r\n").unwrap();
            }
            s.flush().unwrap();
            let mut buf = [0u8; 256];
            use std::io::Read;
            let _ = s.read(&mut buf);
        });
        let (stream, _) = listener.accept().await.expect("accept");
        let io = hyper_util::rt::TokioIo::new(stream);
        let (tx, rx) = tokio::sync::oneshot::channel::<Result<Vec<u8>, ExtractBufferedBodyError>>();
        let tx = std::sync::Arc::new(std::sync::Mutex::new(Some(tx)));
        let svc = hyper::service::service_fn(move |req: hyper::Request<hyper::body::Incoming>| {
            let tx = tx.clone();
            async move {
                let (parts, body) = req.into_parts();
                let head: RequestHead = parts.into();
                let r = BufferedBody::extract(&head, RawIncomingBody::from(body), limit).await;
                let out = r.map(|b| b.bytes.to_vec());
                if let Some(tx) = tx.lock().unwrap().take() {
                    let _ = tx.send(out);
                }
                Ok::<_, std::convert::Infallible>(hyper::Response::new(http_body_util::Empty::<Bytes>::new()))
            }
        });
        let conn = hyper::server::conn::http1::Builder::new().serve_connection(io, svc);
        let _ = tokio::time::timeout(std::time::Duration::from_secs(10), conn).await;
        let _ = client.join();
        match tokio::time::timeout(std::time::Duration::from_secs(5), rx).await {
            Ok(Ok(r)) => r,
            _ => panic!("the handler never ran"),
        }
    }

    #[test]
    fn verif_replay_c14() {
        let Ok(path) = std::env::var("VERIF_C14_SCRIPT") else {
            println!("C14-REPLAY MALFORMED no script given");
            return;
        };
        let v: serde_json::Value = match std::fs::read_to_string(&path).ok().and_then(|s| serde_json::from_str(&s).ok()) {
            Some(v) => v,
            None => {
                println!("C14-REPLAY MALFORMED cannot read {path}");
                return;
            }
        };
        let limit = v["limit"].as_u64();
        let header: Option<Vec<u8>> = if v["header"].is_null() { None } else { Some(bytes_of(&v["header"])) };
        let frames: Vec<Vec<u8>> = v["frames"].as_array().map(|a| a.iter().map(bytes_of).collect()).unwrap_or_default();
        let error_at = v["error_at"].as_u64().map(|x| x as usize).filter(|i| *i < frames.len());
        let trailers = v["trailers"].as_bool().unwrap_or(false);
        let sent: Vec<u8> = frames.concat();
        let cl = ref_content_length(&header);
        let garbage = header.is_some() && cl.is_none();
        let rt = tokio::runtime::Builder::new_current_thread().enable_all().build().unwrap();

        // the property, for a limit of n bytes
        let judge = |r: &Result<Vec<u8>, ExtractBufferedBodyError>, n: u64, cl: Option<u64>, garbage: bool, via: &str| -> Option<String> {
            match (r, error_at) {
                (Ok(_), Some(_)) => Some(format!("{via}: a body whose transport failed was returned as if complete")),
                (Ok(b), None) if b.len() as u64 > n => Some(format!("{via}: {} bytes handed to the application under a limit of {n}", b.len())),
                (Ok(b), None) if b.as_slice() != sent.as_slice() => Some(format!("{via}: the buffered body differs from what the client sent")),
                (Ok(_), None) => None,
                (Err(_), Some(_)) => None,
                (Err(ExtractBufferedBodyError::SizeLimitExceeded(_)), None) => {
                    if garbage || sent.len() as u64 > n || cl.map_or(false, |c| c > n) {
                        None
                    } else {
                        Some(format!("{via}: size-limit error for {} bytes (Content-Length {cl:?}) under a limit of {n}", sent.len()))
                    }
                }
                (Err(e), None) => Some(format!("{via}: an intact body was refused with {e:?}")),
            }
        };
        let verdict: Option<String> = match limit {
            Some(n) => {
                let mut headers = HeaderMap::new();
                if v["other_first"].as_bool().unwrap_or(false) {
                    headers.append(http::header::CONTENT_TYPE, http::HeaderValue::from_static("9"));
                }
                if let Some(h) = &header {
                    match http::HeaderValue::from_bytes(h) {
                        Ok(hv) => {
                            headers.append(http::header::CONTENT_LENGTH, hv);
                        }
                        Err(_) => {
                            println!("C14-REPLAY NOT-REPRODUCED the header bytes are not a legal header value for the real http crate");
                            return;
                        }
                    }
                }
                let head = RequestHead { method: http::Method::POST, target: "/".parse().unwrap(), version: http::Version::HTTP_11, headers };
                let body = Frames { frames: frames.clone(), error_at, trailers, next: 0 };
                let r = rt.block_on(BufferedBody::_extract_with_limit(&head, body, n.bytes())).map(|b| b.bytes.to_vec());
                let direct = judge(&r, n, cl, garbage, "_extract_with_limit");
                // the public entry point too, whenever hyper can deliver the request as scripted: no
                // Content-Length (chunked) or a truthful one
                let truthful = cl == Some(sent.len() as u64) && error_at.is_none() && !trailers;
                let through_extract = if direct.is_none() && (header.is_none() || truthful) {
                    let r = rt.block_on(extract_over_loopback(frames.clone(), error_at, trailers, BodySizeLimit::Enabled { max_size: n.bytes() }, truthful));
                    judge(&r, n, if truthful { cl } else { None }, false, "BufferedBody::extract over a real connection")
                } else {
                    None
                };
                direct.or(through_extract)
            }
            None => {
                let r = rt.block_on(extract_over_loopback(frames.clone(), error_at, trailers, BodySizeLimit::Disabled, false));
                match (&r, error_at) {
                    (Ok(_), Some(_)) => Some("a body whose transport failed was returned as if complete (no limit)".into()),
                    (Ok(b), None) if b != &sent => Some("the buffered body differs from what the client sent (no limit)".into()),
                    (Ok(_), None) => None,
                    (Err(_), Some(_)) => None,
                    (Err(e), None) => Some(format!("an intact body was refused although no limit is configured: {e:?}")),
                }
            }
        };
        match verdict {
            Some(why) => println!("C14-REPLAY REPRODUCED {why}"),
            None => println!("C14-REPLAY NOT-REPRODUCED the real extractor behaves as documented on this input"),
        }
    }
}
