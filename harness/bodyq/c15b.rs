// ------------------------------------------------------------------------------------------------
// Verification harnesses for the body and query extractors of C15 (JsonBody::extract,
// UrlEncodedBody::extract, QueryParams::extract).
//
// The real runtime/pavex/src/request/body/{json,url_encoded,errors}.rs and
// request/query/{query_params,errors}.rs (plus the de-asynced buffered_body.rs, limit.rs,
// request_head.rs) run against contract shims of `mime` (the real parser does not finish in CBMC even on constants) and of the third-party parsers
// (`serde_json`, `serde_html_form`, `form_urlencoded`, `serde_path_to_error`: opaque parsers that let
// the harness see exactly which bytes they were given and that fail on demand) and of `http`/`bytes`.
// Decided - Pavex's own part of the guarantee:
//   * which header decides whether the body is looked at, how its value is classified (media type,
//     subtype, `+json` suffix, parameters), and which documented error each refusal yields;
//   * that the bytes handed to the parser are exactly the buffered body / the raw query string
//     (nothing decoded, trimmed, truncated or re-encoded on the way: "percent-decoding happens exactly
//     once" - by the parser), and that what the parser produced is what the handler receives;
//   * that a parser failure becomes the documented deserialization error, never Ok.
// The JSON / form syntax itself is the trusted third-party base.
// Content-Type values are constants per call site (parsing symbolic text does not
// finish in CBMC); the solver picks the call site, the body/query bytes and the parser's outcome.
// ------------------------------------------------------------------------------------------------
#![allow(static_mut_refs, dead_code, unused_imports)]

#[path = "nd.rs"]
mod nd;
use crate::request::RequestHead;
use crate::request::body::errors::{ExtractJsonBodyError, ExtractUrlEncodedBodyError};
use crate::request::body::{BufferedBody, JsonBody, UrlEncodedBody};
use crate::request::query::QueryParams;
use crate::request::query::errors::ExtractQueryParamsError;
use bytes::Bytes;
use http::{HeaderMap, HeaderValue};

const MAX_BODY: usize = 4;

/// What a media type means for the two body extractors, per the documentation of the extractors:
/// JSON = `application/json` or `application/*+json`; form = `application/x-www-form-urlencoded`;
/// parameters (`; charset=utf-8`) and letter case do not matter. `None` = not a media type at all.
#[derive(Clone, Copy, PartialEq)]
enum Kind {
    NotAMediaType,
    Json,
    Form,
    Other,
}

/// (header value, classification)
const TABLE: [(&str, Kind); 27] = [
    ("application/json", Kind::Json),
    ("application/json; charset=utf-8", Kind::Json),
    ("application/hal+json", Kind::Json),
    ("application/problem+json;charset=UTF-8", Kind::Json),
    ("Application/JSON", Kind::Json),
    ("application/x-www-form-urlencoded", Kind::Form),
    ("application/x-www-form-urlencoded; charset=utf-8", Kind::Form),
    ("APPLICATION/X-WWW-FORM-URLENCODED", Kind::Form),
    ("text/json", Kind::Other),
    ("text/plain", Kind::Other),
    ("application/xml", Kind::Other),
    ("application/jsonx", Kind::Other),
    ("application/json-seq", Kind::Other),
    ("application/hal+xml", Kind::Other),
    ("text/x-www-form-urlencoded", Kind::Other),
    ("multipart/form-data; boundary=x", Kind::Other),
    ("hello world", Kind::NotAMediaType),
    ("json", Kind::NotAMediaType),
    // look-alikes: a subtype that merely ends in / starts with the expected word, the suffix under
    // another top-level type, the expected subtype as a suffix
    ("application/x-ndjson", Kind::Other),
    ("text/vnd.acme+json", Kind::Other),
    ("application/vnd.api+json", Kind::Json),
    ("application/x-www-form-urlencoded-v2", Kind::Other),
    ("application/www-form-urlencoded", Kind::Other),
    ("application/vnd.x+x-www-form-urlencoded", Kind::Other),
    ("image/svg+json", Kind::Other),
    ("application/octet-stream", Kind::Other),
    ("application/jsonld", Kind::Other),
];

fn fmt_stub(_a: std::fmt::Arguments<'_>) -> String {
    String::new()
}

/// The target type of every harness: it asks the deserializer for bytes, and the shim parsers answer
/// with the very input they were built from - so `Raw.0` is "what reached the third-party parser".
struct Raw<'a>(&'a [u8]);
impl<'de> serde::Deserialize<'de> for Raw<'de> {
    fn deserialize<D: serde::Deserializer<'de>>(d: D) -> Result<Self, D::Error> {
        struct V;
        impl<'de> serde::de::Visitor<'de> for V {
            type Value = Raw<'de>;
            fn expecting(&self, f: &mut std::fmt::Formatter<'_>) -> std::fmt::Result {
                f.write_str("bytes")
            }
            fn visit_borrowed_bytes<E>(self, v: &'de [u8]) -> Result<Raw<'de>, E> {
                Ok(Raw(v))
            }
        }
        d.deserialize_bytes(V)
    }
}

fn same(a: &[u8], b: &[u8]) -> bool {
    if a.len() != b.len() {
        return false;
    }
    let mut i = 0;
    while i < a.len() {
        if a[i] != b[i] {
            return false;
        }
        i += 1;
    }
    true
}

/// header: None = no Content-Type header; Some(None) = a value that is not visible ASCII;
/// Some(Some(i)) = TABLE[i]
#[derive(Clone, Copy)]
enum Hdr {
    Absent,
    NotAscii,
    Text(usize),
}

fn head(h: Hdr, other_first: bool) -> RequestHead {
    let mut headers = HeaderMap::new();
    if other_first {
        headers.append(http::header::CONTENT_LENGTH, HeaderValue::from_static("3"));
    }
    match h {
        Hdr::Absent => {}
        Hdr::NotAscii => {
            headers.append(http::header::CONTENT_TYPE, HeaderValue::from_bytes_unchecked(b"application/json\xFF"));
        }
        Hdr::Text(i) => {
            headers.append(http::header::CONTENT_TYPE, HeaderValue::from_static(TABLE[i].0));
        }
    }
    RequestHead { method: http::Method::POST, target: http::Uri, version: http::Version::HTTP_11, headers }
}

fn any_body() -> ([u8; MAX_BODY], usize) {
    let len = nd::u8_below(MAX_BODY as u8 + 1) as usize;
    let mut b = [0u8; MAX_BODY];
    let mut i = 0;
    while i < MAX_BODY {
        b[i] = nd::any_u8();
        // native search only (making a counterexample concrete): prefer bytes that matter to a parser
        #[cfg(test)]
        if nd::searching() {
            b[i] = b"a %+&=\n/2\t\"\xC3 k}"[b[i] as usize % 16];
        }
        i += 1;
    }
    (b, len)
}

fn trace(extractor: &str, h: Hdr, other_first: bool, body: &[u8], fail: bool, trailing: bool) {
    nd::trace(|| {
        let hs = match h {
            Hdr::Absent => "null".to_string(),
            Hdr::NotAscii => "\"<not-ascii>\"".to_string(),
            Hdr::Text(i) => format!("{:?}", TABLE[i].0),
        };
        format!("{{\"kind\":\"c15b\",\"extractor\":\"{extractor}\",\"header\":{hs},\"other_first\":{other_first},\"bytes\":{body:?},\"parser_fails\":{fail},\"trailing\":{trailing}}}")
    });
}

// ---------------------------------------------------------------------------------------------
// JSON
// ---------------------------------------------------------------------------------------------
fn run_json(h: Hdr) -> bool {
    // concrete per call site: a symbolic position in the header map makes the header text symbolic
    let other_first = matches!(h, Hdr::Text(i) if i % 2 == 1);
    let (b, len) = any_body();
    let fail = nd::any_bool();
    // the document is one JSON value followed by something that is not whitespace
    let trailing = nd::any_bool();
    trace("json", h, other_first, &b[..len], fail, trailing);
    unsafe {
        serde_json::verif::FAIL = fail;
        serde_json::verif::TRAILING = trailing;
        serde_json::verif::BUILT = 0;
    }
    let rh = head(h, other_first);
    let body = BufferedBody { bytes: Bytes::copy_from_slice(&b[..len]) };
    let r: Result<JsonBody<Raw<'_>>, ExtractJsonBodyError> = JsonBody::extract(&rh, &body);
    let accepted = match h {
        Hdr::Text(i) => TABLE[i].1 == Kind::Json,
        _ => false,
    };
    match (&r, h) {
        (Ok(v), _) => {
            assert!(accepted, "a body was deserialized as JSON although the Content-Type is missing or is not a JSON media type");
            assert!(!fail, "the parser failed but the extractor returned a value");
            assert!(!trailing, "a body that is not one JSON document (a value followed by trailing characters) was accepted");
            assert!(same(v.0.0, &b[..len]), "the bytes handed to the JSON parser are not the bytes of the buffered body");
        }
        (Err(ExtractJsonBodyError::DeserializationError(_)), _) => {
            assert!(accepted, "a Content-Type problem was reported as a deserialization error (the body was parsed although the media type is wrong)");
            assert!(fail || trailing, "a JSON body with a JSON media type that the parser accepts was refused");
        }
        (Err(ExtractJsonBodyError::MissingContentType(_)), Hdr::Absent) => {}
        (Err(ExtractJsonBodyError::MissingContentType(_)), Hdr::NotAscii) => {}
        (Err(ExtractJsonBodyError::ContentTypeMismatch(_)), Hdr::NotAscii) => {}
        (Err(ExtractJsonBodyError::ContentTypeMismatch(_)), Hdr::Text(_)) => {
            assert!(!accepted, "a JSON media type was refused as a Content-Type mismatch");
        }
        (Err(ExtractJsonBodyError::MissingContentType(_)), Hdr::Text(i)) => {
            assert!(!accepted, "a JSON media type was refused as a missing Content-Type");
            assert!(TABLE[i].1 == Kind::NotAMediaType, "a media type that is present was reported as missing");
        }
        (Err(_), _) => panic!("the wrong error kind was produced for this Content-Type"),
    }
    let ok = r.is_ok();
    std::mem::forget(r);
    ok
}

// @tier quick
// @obligation JsonBody::extract, Content-Type absent / not visible ASCII / one of 27 constant values (JSON, +json suffix, parameters, upper case, form, look-alikes such as application/jsonx, application/x-ndjson, text/json, text/vnd.acme+json, application/hal+xml, not a media type), any body of <= 4 bytes, parser succeeding, failing, or finding trailing characters after the first JSON value: Ok only for a JSON media type and a body that is exactly one JSON document, and then the parser was handed exactly the buffered bytes and its value is returned; a refusal is the documented error for the situation (missing / mismatch / deserialization), never a deserialization error for a wrong media type
// @bounds body <= 4 arbitrary bytes; Content-Type: Hdr::Absent, Hdr::NotAscii, Hdr::Text(0), Hdr::Text(1), Hdr::Text(2), Hdr::Text(3), Hdr::Text(4), Hdr::Text(5), Hdr::Text(6), Hdr::Text(7) (constants per call site; Text(i) = entry i of TABLE in harness/bodyq/c15b.rs)
// @functions JsonBody::extract, check_json_content_type, mime shim
// @timeout 600
// @mem 16
#[kani::proof]
#[kani::unwind(60)]
#[kani::stub(std::fmt::format, fmt_stub)]
fn c15b_json_part1() {
    let c = nd::u8_below(10);
    let ok = match c {
        0 => run_json(Hdr::Absent),
        1 => run_json(Hdr::NotAscii),
        2 => run_json(Hdr::Text(0)),
        3 => run_json(Hdr::Text(1)),
        4 => run_json(Hdr::Text(2)),
        5 => run_json(Hdr::Text(3)),
        6 => run_json(Hdr::Text(4)),
        7 => run_json(Hdr::Text(5)),
        8 => run_json(Hdr::Text(6)),
        _ => run_json(Hdr::Text(7)),
    };
    kani::cover!(c == 4 && ok, "a +json media type is accepted");
    kani::cover!(c == 7 && !ok, "a form media type is refused by the JSON extractor");
}

// @tier quick
// @obligation as c15b_json_part1, for another part of the Content-Type table
// @bounds body <= 4 arbitrary bytes; Content-Type: Hdr::Text(8), Hdr::Text(9), Hdr::Text(10), Hdr::Text(11), Hdr::Text(12), Hdr::Text(13), Hdr::Text(14), Hdr::Text(15), Hdr::Text(16), Hdr::Text(17) (constants per call site; Text(i) = entry i of TABLE in harness/bodyq/c15b.rs)
// @functions JsonBody::extract, check_json_content_type, mime shim
// @timeout 600
// @mem 16
#[kani::proof]
#[kani::unwind(60)]
#[kani::stub(std::fmt::format, fmt_stub)]
fn c15b_json_part2() {
    let c = nd::u8_below(10);
    let ok = match c {
        0 => run_json(Hdr::Text(8)),
        1 => run_json(Hdr::Text(9)),
        2 => run_json(Hdr::Text(10)),
        3 => run_json(Hdr::Text(11)),
        4 => run_json(Hdr::Text(12)),
        5 => run_json(Hdr::Text(13)),
        6 => run_json(Hdr::Text(14)),
        7 => run_json(Hdr::Text(15)),
        8 => run_json(Hdr::Text(16)),
        _ => run_json(Hdr::Text(17)),
    };
    kani::cover!(c == 3 && !ok, "application/jsonx is refused");
}

// @tier quick
// @obligation as c15b_json_part1, for another part of the Content-Type table
// @bounds body <= 4 arbitrary bytes; Content-Type: Hdr::Text(18), Hdr::Text(19), Hdr::Text(20), Hdr::Text(21), Hdr::Text(22), Hdr::Text(23), Hdr::Text(24), Hdr::Text(25), Hdr::Text(26) (constants per call site; Text(i) = entry i of TABLE in harness/bodyq/c15b.rs)
// @functions JsonBody::extract, check_json_content_type, mime shim
// @timeout 600
// @mem 16
#[kani::proof]
#[kani::unwind(60)]
#[kani::stub(std::fmt::format, fmt_stub)]
fn c15b_json_part3() {
    let c = nd::u8_below(9);
    let ok = match c {
        0 => run_json(Hdr::Text(18)),
        1 => run_json(Hdr::Text(19)),
        2 => run_json(Hdr::Text(20)),
        3 => run_json(Hdr::Text(21)),
        4 => run_json(Hdr::Text(22)),
        5 => run_json(Hdr::Text(23)),
        6 => run_json(Hdr::Text(24)),
        7 => run_json(Hdr::Text(25)),
        _ => run_json(Hdr::Text(26)),
    };
    kani::cover!(c == 2 && ok, "application/vnd.api+json is accepted");
    kani::cover!(c == 0 && !ok, "application/x-ndjson is refused");
}

// ---------------------------------------------------------------------------------------------
// URL-encoded form
// ---------------------------------------------------------------------------------------------
fn run_form(h: Hdr) -> bool {
    let other_first = matches!(h, Hdr::Text(i) if i % 2 == 0);
    let (b, len) = any_body();
    let fail = nd::any_bool();
    trace("form", h, other_first, &b[..len], fail, false);
    unsafe {
        serde_html_form::verif::FAIL = fail;
        serde_html_form::verif::BUILT = 0;
    }
    let rh = head(h, other_first);
    let body = BufferedBody { bytes: Bytes::copy_from_slice(&b[..len]) };
    let r: Result<UrlEncodedBody<Raw<'_>>, ExtractUrlEncodedBodyError> = UrlEncodedBody::extract(&rh, &body);
    let accepted = match h {
        Hdr::Text(i) => TABLE[i].1 == Kind::Form,
        _ => false,
    };
    match (&r, h) {
        (Ok(v), _) => {
            assert!(accepted, "a body was deserialized as a form although the Content-Type is missing or is not application/x-www-form-urlencoded");
            assert!(!fail, "the parser failed but the extractor returned a value");
            assert!(same(v.0.0, &b[..len]), "the bytes handed to the form parser are not the bytes of the buffered body");
        }
        (Err(ExtractUrlEncodedBodyError::DeserializationError(_)), _) => {
            assert!(accepted, "a Content-Type problem was reported as a deserialization error (the body was parsed although the media type is wrong)");
            assert!(fail, "a form body with the form media type that the parser accepts was refused");
        }
        (Err(ExtractUrlEncodedBodyError::MissingContentType(_)), Hdr::Absent) => {}
        (Err(ExtractUrlEncodedBodyError::MissingContentType(_)), Hdr::NotAscii) => {}
        (Err(ExtractUrlEncodedBodyError::ContentTypeMismatch(_)), Hdr::NotAscii) => {}
        (Err(ExtractUrlEncodedBodyError::ContentTypeMismatch(_)), Hdr::Text(_)) => {
            assert!(!accepted, "the form media type was refused as a Content-Type mismatch");
        }
        (Err(ExtractUrlEncodedBodyError::MissingContentType(_)), Hdr::Text(i)) => {
            assert!(!accepted, "the form media type was refused as a missing Content-Type");
            assert!(TABLE[i].1 == Kind::NotAMediaType, "a media type that is present was reported as missing");
        }
        (Err(_), _) => panic!("the wrong error kind was produced for this Content-Type"),
    }
    let ok = r.is_ok();
    std::mem::forget(r);
    ok
}

// @tier quick
// @obligation UrlEncodedBody::extract, Content-Type absent / not visible ASCII / one of 27 constant values, any body of <= 4 bytes, parser succeeding or failing: Ok only for application/x-www-form-urlencoded (parameters and case ignored), and then the parser was handed exactly the buffered bytes (nothing decoded or trimmed before the parser: percent-decoding happens once) and its value is returned; a refusal is the documented error for the situation
// @bounds body <= 4 arbitrary bytes; Content-Type: Hdr::Absent, Hdr::NotAscii, Hdr::Text(0), Hdr::Text(1), Hdr::Text(2), Hdr::Text(3), Hdr::Text(4), Hdr::Text(5), Hdr::Text(6), Hdr::Text(7) (constants per call site; Text(i) = entry i of TABLE in harness/bodyq/c15b.rs)
// @functions UrlEncodedBody::extract, check_urlencoded_content_type, url_encoded::parse, mime shim
// @timeout 600
// @mem 16
#[kani::proof]
#[kani::unwind(60)]
#[kani::stub(std::fmt::format, fmt_stub)]
fn c15b_form_part1() {
    let c = nd::u8_below(10);
    let ok = match c {
        0 => run_form(Hdr::Absent),
        1 => run_form(Hdr::NotAscii),
        2 => run_form(Hdr::Text(0)),
        3 => run_form(Hdr::Text(1)),
        4 => run_form(Hdr::Text(2)),
        5 => run_form(Hdr::Text(3)),
        6 => run_form(Hdr::Text(4)),
        7 => run_form(Hdr::Text(5)),
        8 => run_form(Hdr::Text(6)),
        _ => run_form(Hdr::Text(7)),
    };
    kani::cover!(c == 8 && ok, "the form media type with a charset parameter is accepted");
    kani::cover!(c == 2 && !ok, "a JSON media type is refused by the form extractor");
}

// @tier quick
// @obligation as c15b_form_part1, for another part of the Content-Type table
// @bounds body <= 4 arbitrary bytes; Content-Type: Hdr::Text(8), Hdr::Text(9), Hdr::Text(10), Hdr::Text(11), Hdr::Text(12), Hdr::Text(13), Hdr::Text(14), Hdr::Text(15), Hdr::Text(16), Hdr::Text(17) (constants per call site; Text(i) = entry i of TABLE in harness/bodyq/c15b.rs)
// @functions UrlEncodedBody::extract, check_urlencoded_content_type, url_encoded::parse, mime shim
// @timeout 600
// @mem 16
#[kani::proof]
#[kani::unwind(60)]
#[kani::stub(std::fmt::format, fmt_stub)]
fn c15b_form_part2() {
    let c = nd::u8_below(10);
    let ok = match c {
        0 => run_form(Hdr::Text(8)),
        1 => run_form(Hdr::Text(9)),
        2 => run_form(Hdr::Text(10)),
        3 => run_form(Hdr::Text(11)),
        4 => run_form(Hdr::Text(12)),
        5 => run_form(Hdr::Text(13)),
        6 => run_form(Hdr::Text(14)),
        7 => run_form(Hdr::Text(15)),
        8 => run_form(Hdr::Text(16)),
        _ => run_form(Hdr::Text(17)),
    };
    kani::cover!(c == 6 && !ok, "text/x-www-form-urlencoded is refused");
}

// @tier quick
// @obligation as c15b_form_part1, for another part of the Content-Type table
// @bounds body <= 4 arbitrary bytes; Content-Type: Hdr::Text(18), Hdr::Text(19), Hdr::Text(20), Hdr::Text(21), Hdr::Text(22), Hdr::Text(23), Hdr::Text(24), Hdr::Text(25), Hdr::Text(26) (constants per call site; Text(i) = entry i of TABLE in harness/bodyq/c15b.rs)
// @functions UrlEncodedBody::extract, check_urlencoded_content_type, url_encoded::parse, mime shim
// @timeout 600
// @mem 16
#[kani::proof]
#[kani::unwind(60)]
#[kani::stub(std::fmt::format, fmt_stub)]
fn c15b_form_part3() {
    let c = nd::u8_below(9);
    let ok = match c {
        0 => run_form(Hdr::Text(18)),
        1 => run_form(Hdr::Text(19)),
        2 => run_form(Hdr::Text(20)),
        3 => run_form(Hdr::Text(21)),
        4 => run_form(Hdr::Text(22)),
        5 => run_form(Hdr::Text(23)),
        6 => run_form(Hdr::Text(24)),
        7 => run_form(Hdr::Text(25)),
        _ => run_form(Hdr::Text(26)),
    };
    kani::cover!(c == 3 && !ok, "a subtype that starts with the form subtype is refused");
}

// ---------------------------------------------------------------------------------------------
// Query parameters
// ---------------------------------------------------------------------------------------------
// @tier quick
// @obligation QueryParams::extract for a request target without a query string or with any query string of <= 4 ASCII bytes ('%', '+', '&', '=' included), parser succeeding or failing: the third-party parser is handed exactly the raw query string (empty when there is none) - nothing is decoded, trimmed or re-encoded before it, so percent-decoding happens exactly once - its value is what the handler receives, and its failure becomes QueryDeserializationError, never Ok
// @bounds query string absent or <= 4 arbitrary ASCII bytes
// @functions QueryParams::extract, query_params::parse
// @timeout 600
// @mem 16
#[kani::proof]
#[kani::unwind(12)]
#[kani::stub(std::fmt::format, fmt_stub)]
fn c15b_query() {
    query_body(MAX_BODY)
}

fn query_body(max_len: usize) {
    let has_query = nd::any_bool();
    let (mut b, len) = any_body();
    nd::assume(len <= max_len);
    let mut i = 0;
    while i < MAX_BODY {
        #[cfg(test)]
        if nd::searching() {
            b[i] = b"a%+&=?/5"[b[i] as usize % 8];
        }
        nd::assume(b[i] < 128);
        i += 1;
    }
    let fail = nd::any_bool();
    nd::trace(|| format!("{{\"kind\":\"c15b\",\"extractor\":\"query\",\"header\":null,\"other_first\":false,\"bytes\":{},\"parser_fails\":{fail},\"trailing\":false}}",
        if has_query { format!("{:?}", &b[..len]) } else { "null".to_string() }));
    unsafe {
        serde_html_form::verif::FAIL = fail;
        serde_html_form::verif::BUILT = 0;
    }
    let target = if has_query { http::Uri::with_query(&b[..len]) } else { http::Uri::without_query() };
    let rh = RequestHead { method: http::Method::GET, target, version: http::Version::HTTP_11, headers: HeaderMap::new() };
    let r: Result<QueryParams<Raw<'_>>, ExtractQueryParamsError> = QueryParams::extract(&rh);
    let want: &[u8] = if has_query { &b[..len] } else { &[] };
    match &r {
        Ok(v) => {
            assert!(!fail, "the parser failed but the extractor returned a value");
            assert!(same(v.0.0, want), "the text handed to the query parser is not the raw query string of the request");
        }
        Err(ExtractQueryParamsError::QueryDeserializationError(_)) => {
            assert!(fail, "a query string that the parser accepts was refused");
        }
        #[allow(unreachable_patterns)]
        Err(_) => panic!("the wrong error kind was produced"),
    }
    kani::cover!(r.is_ok() && has_query && len == max_len, "a query string of the longest length reaches the parser");
    kani::cover!(r.is_err(), "a parser failure is reported");
    std::mem::forget(r);
}


// @tier quick
// @obligation as c15b_query for query strings of at most 2 bytes: a first-party change that starts to search or split the query text itself (std's string searchers on symbolic text) can run CBMC out of memory at 4 bytes; this copy keeps such a change decidable
// @bounds query string absent or <= 2 arbitrary ASCII bytes
// @functions QueryParams::extract, query_params::parse
// @timeout 1500
// @mem 16
#[kani::proof]
#[kani::unwind(12)]
#[kani::stub(std::fmt::format, fmt_stub)]
fn c15b_query_short() {
    query_body(2)
}

#[cfg(test)]
mod native_search {
    use super::*;
    fn reset() {}
    macro_rules! ns {
        ($($name:ident),*) => { $( #[test] fn $name() { nd::search(stringify!($name), super::$name, reset); } )* };
    }
    ns!(c15b_json_part1, c15b_json_part2, c15b_json_part3, c15b_form_part1, c15b_form_part2, c15b_form_part3, c15b_query, c15b_query_short);
}
