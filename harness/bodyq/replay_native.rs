
// ------------------------------------------------------------------------------------------------
// Native replay of a body/query-extractor counterexample against the REAL pavex crate (appended by
// /verif to the scratch copy of request/body/json.rs; never part of /repo): real mime, serde_json,
// serde_html_form, form_urlencoded. The harness's opaque "bytes" become a real document that carries
// them (a JSON string / one form field / one query parameter, percent-encoded once), so that what the
// handler receives can be compared with what the client encoded.
// Script (JSON, path in $VERIF_C15B_SCRIPT):
//   {"extractor": "json"|"form"|"query", "header": text|null|"<not-ascii>", "other_first": bool,
//    "bytes": [..]|null, "parser_fails": bool}
// ------------------------------------------------------------------------------------------------
#[cfg(all(test, verif_replay))]
mod verif_replay_c15b {
    use crate::request::RequestHead;
    use crate::request::body::errors::{ExtractJsonBodyError, ExtractUrlEncodedBodyError};
    use crate::request::body::{BufferedBody, JsonBody, UrlEncodedBody};
    use crate::request::query::QueryParams;

    #[derive(serde::Deserialize, Debug)]
    struct Field {
        k: String,
    }

    fn is_json(h: &str) -> Option<bool> {
        // the documentation-level rule, stated independently of the implementation
        let h = h.to_ascii_lowercase();
        let essence = h.split(';').next().unwrap_or("").trim();
        let (ty, sub) = essence.split_once('/')?;
        if ty.is_empty() || sub.is_empty() || essence.contains(' ') {
            return None;
        }
        Some(ty == "application" && (sub == "json" || sub.ends_with("+json")))
    }
    fn is_form(h: &str) -> Option<bool> {
        let h = h.to_ascii_lowercase();
        let essence = h.split(';').next().unwrap_or("").trim();
        let (ty, sub) = essence.split_once('/')?;
        if ty.is_empty() || sub.is_empty() || essence.contains(' ') {
            return None;
        }
        Some(ty == "application" && sub == "x-www-form-urlencoded")
    }
    /// the text the client wants to transmit: the harness bytes read as Latin-1 (any byte is a char)
    fn text_of(bytes: &[u8]) -> String {
        bytes.iter().map(|b| *b as char).collect()
    }
    /// percent-encode once; characters that may stand for themselves in a query / form value are sent
    /// raw (so that code which tampers with raw '/', whitespace, ... before the parser is exposed);
    /// `raw_ws`: a form body may also carry raw whitespace, a request target may not
    fn pct(s: &str, raw_ws: bool) -> String {
        let mut out = String::new();
        for b in s.as_bytes() {
            let c = *b as char;
            if c.is_ascii_alphanumeric() || "-._~/:@!$'()*,;?".contains(c) || (raw_ws && matches!(c, ' ' | '\n' | '\r' | '\t')) {
                out.push(c);
            } else {
                out.push_str(&format!("%{b:02X}"));
            }
        }
        out
    }

    fn halves(text: &str) -> (String, String) {
        let cs: Vec<char> = text.chars().collect();
        let m = cs.len() / 2;
        (cs[..m].iter().collect(), cs[m..].iter().collect())
    }
    fn pair_doc(text: &str, raw_ws: bool) -> String {
        if text.is_empty() {
            return String::new();
        }
        let (a, b) = halves(text);
        format!("{}={}", pct(&a, raw_ws), pct(&b, raw_ws))
    }
    fn pairs_expected(text: &str) -> Vec<(String, String)> {
        if text.is_empty() { vec![] } else { vec![halves(text)] }
    }

    #[test]
    fn verif_replay_c15b() {
        let Ok(path) = std::env::var("VERIF_C15B_SCRIPT") else {
            println!("C15B-REPLAY MALFORMED no script given");
            return;
        };
        let Some(v) = std::fs::read_to_string(&path).ok().and_then(|s| serde_json::from_str::<serde_json::Value>(&s).ok()) else {
            println!("C15B-REPLAY MALFORMED cannot read {path}");
            return;
        };
        let extractor = v["extractor"].as_str().unwrap_or("").to_string();
        let bytes: Option<Vec<u8>> = v["bytes"].as_array().map(|a| a.iter().map(|x| x.as_u64().unwrap_or(0) as u8).collect());
        let fails = v["parser_fails"].as_bool().unwrap_or(false);
        let trailing = v["trailing"].as_bool().unwrap_or(false);
        let mut headers = http::HeaderMap::new();
        if v["other_first"].as_bool().unwrap_or(false) {
            headers.append(http::header::CONTENT_LENGTH, http::HeaderValue::from_static("3"));
        }
        let header: Option<String> = v["header"].as_str().map(|s| s.to_string());
        match header.as_deref() {
            None => {}
            Some("<not-ascii>") => {
                headers.append(http::header::CONTENT_TYPE, http::HeaderValue::from_bytes(b"application/json\xFF").unwrap());
            }
            Some(h) => {
                headers.append(http::header::CONTENT_TYPE, http::HeaderValue::from_str(h).unwrap());
            }
        }
        let text = text_of(bytes.as_deref().unwrap_or(&[]));
        let mut problems: Vec<String> = Vec::new();
        match extractor.as_str() {
            "json" | "form" => {
                let json = extractor == "json";
                let doc = if fails {
                    if json { "{\"k\": ".to_string() } else { "q=1".to_string() }
                } else if json {
                    let d = serde_json::to_string(&serde_json::json!({ "k": text })).unwrap();
                    // a complete JSON value followed by characters that are not whitespace
                    if trailing { format!("{d}{{\"k\":\"other\"}}") } else { d }
                } else {
                    // one pair whose key and value are the two halves of the text: both edges of the body
                    // are under the script's control
                    pair_doc(&text, true)
                };
                let head = RequestHead { method: http::Method::POST, target: "/".parse().unwrap(), version: http::Version::HTTP_11, headers };
                let body = BufferedBody { bytes: bytes::Bytes::from(doc.clone().into_bytes()) };
                let accepted = match header.as_deref() {
                    None | Some("<not-ascii>") => Some(false),
                    Some(h) => if json { is_json(h) } else { is_form(h) },
                };
                // 0 = Ok(value), 1 = missing, 2 = mismatch, 3 = deserialization
                let (kind, value) = if json {
                    match JsonBody::<Field>::extract(&head, &body) {
                        Ok(b) => (0, Some(b.0.k)),
                        Err(ExtractJsonBodyError::MissingContentType(_)) => (1, None),
                        Err(ExtractJsonBodyError::ContentTypeMismatch(_)) => (2, None),
                        Err(ExtractJsonBodyError::DeserializationError(_)) => (3, None),
                    }
                } else if !fails {
                    match UrlEncodedBody::<Vec<(String, String)>>::extract(&head, &body) {
                        Ok(b) => (0, Some(if b.0 == pairs_expected(&text) { text.clone() } else { format!("{:?}", b.0) })),
                        Err(ExtractUrlEncodedBodyError::MissingContentType(_)) => (1, None),
                        Err(ExtractUrlEncodedBodyError::ContentTypeMismatch(_)) => (2, None),
                        Err(ExtractUrlEncodedBodyError::DeserializationError(_)) => (3, None),
                    }
                } else {
                    match UrlEncodedBody::<Field>::extract(&head, &body) {
                        Ok(b) => (0, Some(b.0.k)),
                        Err(ExtractUrlEncodedBodyError::MissingContentType(_)) => (1, None),
                        Err(ExtractUrlEncodedBodyError::ContentTypeMismatch(_)) => (2, None),
                        Err(ExtractUrlEncodedBodyError::DeserializationError(_)) => (3, None),
                    }
                };
                println!("C15B-REPLAY outcome: header={header:?} doc={doc:?} accepted(doc-level)={accepted:?} -> kind={kind} value={value:?}");
                match accepted {
                    Some(true) => {
                        if fails || (json && trailing) {
                            if kind != 3 {
                                problems.push(format!("a malformed document under an accepted media type ended as kind {kind}, not as a deserialization error"));
                            }
                        } else if kind != 0 {
                            problems.push(format!("a well-formed document under an accepted media type was refused (kind {kind})"));
                        } else if value.as_deref() != Some(text.as_str()) {
                            problems.push(format!("the handler received {value:?}, the client encoded {text:?}"));
                        }
                    }
                    Some(false) => {
                        if kind == 0 || kind == 3 {
                            problems.push(format!("the body was parsed (kind {kind}) although the Content-Type is missing or names another media type"));
                        }
                        if header.is_none() && kind != 1 {
                            problems.push(format!("a missing Content-Type ended as kind {kind}"));
                        }
                        if header.is_some() && header.as_deref() != Some("<not-ascii>") && kind == 1 {
                            problems.push("a media type that is present was reported as missing".to_string());
                        }
                    }
                    None => {
                        if kind == 0 || kind == 3 {
                            problems.push(format!("the body was parsed (kind {kind}) although the Content-Type is not a media type"));
                        }
                    }
                }
            }
            "query" => {
                let target = match &bytes {
                    None => "/p".to_string(),
                    Some(_) if fails => "/p?q=1".to_string(),
                    Some(_) => format!("/p?{}", pair_doc(&text, false)),
                };
                let head = RequestHead { method: http::Method::GET, target: target.parse().unwrap(), version: http::Version::HTTP_11, headers };
                if bytes.is_none() {
                    #[derive(serde::Deserialize, Debug)]
                    struct Opt {
                        k: Option<String>,
                    }
                    match QueryParams::<Opt>::extract(&head) {
                        Ok(q) if q.0.k.is_none() => {}
                        other => problems.push(format!("no query string: expected an empty parameter set, got {:?}", other.map(|q| q.0))),
                    }
                } else {
                    if fails {
                        if QueryParams::<Field>::extract(&head).is_ok() {
                            problems.push("a query string without the required field was accepted".to_string());
                        }
                    } else {
                        match QueryParams::<Vec<(String, String)>>::extract(&head) {
                            Ok(q) => {
                                if q.0 != pairs_expected(&text) {
                                    problems.push(format!("the handler received {:?}, the client encoded {:?} (target {target:?})", q.0, pairs_expected(&text)));
                                }
                            }
                            Err(e) => problems.push(format!("a well-formed query string was refused: {e:?}")),
                        }
                    }
                }
            }
            other => {
                println!("C15B-REPLAY MALFORMED unknown extractor {other:?}");
                return;
            }
        }
        // second delivery for the JSON extractor: the script's bytes as the body itself, judged against the
        // parser Pavex documents it uses (serde_json::from_slice on the same bytes must agree on
        // success / failure and on the value) - this is how an empty or otherwise special body is reached
        if extractor == "json" && !fails && !trailing {
            if let Some(h) = header.as_deref().filter(|h| *h != "<not-ascii>").filter(|h| is_json(h) == Some(true)) {
                let raw = bytes.clone().unwrap_or_default();
                let mut hm = http::HeaderMap::new();
                hm.append(http::header::CONTENT_TYPE, http::HeaderValue::from_str(h).unwrap());
                let head = RequestHead { method: http::Method::POST, target: "/".parse().unwrap(), version: http::Version::HTTP_11, headers: hm };
                let body = BufferedBody { bytes: bytes::Bytes::from(raw.clone()) };
                let want: Result<serde_json::Value, _> = serde_json::from_slice(&raw);
                let got = JsonBody::<serde_json::Value>::extract(&head, &body);
                match (&want, &got) {
                    (Ok(w), Ok(g)) if *w == g.0 => {}
                    (Err(_), Err(ExtractJsonBodyError::DeserializationError(_))) => {}
                    _ => problems.push(format!("raw body {raw:?}: serde_json::from_slice says {:?}, the extractor says {:?}", want.as_ref().map_err(|e| e.to_string()), got.as_ref().map(|g| &g.0).map_err(|e| e.to_string()))),
                }
            }
        }
        if problems.is_empty() {
            println!("C15B-REPLAY NOT-REPRODUCED the real extractor behaves as documented on this script");
        } else {
            println!("C15B-REPLAY REPRODUCED {}", problems.join("; "));
        }
    }
}
