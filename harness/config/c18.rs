// ------------------------------------------------------------------------------------------------
// Verification harnesses for C18 (configuration sources merge with the documented precedence).
// The real `ConfigLoader::load` / `ConfigProfile::load` (runtime/pavex/src/config/mod.rs, unmodified)
// run against a `figment` shim whose three sources are abstract: for each key and each source the
// harness chooses presence and value. What is decided is Pavex's own part: the ORDER in which it
// composes the sources, the parameters it hands to the environment provider, which files it names,
// and that a missing profile or key is an error. figment's merge semantics, YAML and the OS
// environment are the trusted base.
// ------------------------------------------------------------------------------------------------
#![allow(static_mut_refs, dead_code, unused_imports)]

#[path = "nd.rs"]
mod nd;
use crate::config::{ConfigLoader, ConfigProfile};
use figment::verif as fv;

#[derive(serde::Deserialize)]
struct Cfg {
    k0: u8,
    k1: u8,
}

/// Profiles declared the way the documentation shows: the REAL `#[derive(ConfigProfile)]`
/// (runtime/pavex_macros/src/config_profile.rs) generates `FromStr` / `AsRef<str>`: the name of a
/// variant is its snake_case spelling unless `#[px(profile = "..")]` overrides it.
#[derive(pavex_macros::ConfigProfile, Clone, Copy, PartialEq, Eq)]
enum Derived {
    Dev,
    #[px(profile = "prd")]
    Prod,
    /// never selected: it makes the declaration order of the names (dev, prd, ci) differ from their
    /// alphabetical order, and puts an un-annotated variant after the annotated one
    Ci,
}
#[derive(Clone, Copy, PartialEq, Eq)]
enum Prof {
    Dev,
    Prod,
    /// a profile whose name contains a dot (hand-written: the derive refuses such names): the file is
    /// still `<name>.yml`
    Dot,
}
impl Prof {
    fn derived(&self) -> Option<Derived> {
        match self {
            Prof::Dev => Some(Derived::Dev),
            Prof::Prod => Some(Derived::Prod),
            Prof::Dot => None,
        }
    }
}
impl std::str::FromStr for Prof {
    type Err = &'static str;
    fn from_str(s: &str) -> Result<Self, Self::Err> {
        let b = s.as_bytes();
        if b.len() == 3 && b[0] == b'p' && b[1] == b'.' && b[2] == b'q' {
            return Ok(Prof::Dot);
        }
        // the derived parser decides
        match <Derived as std::str::FromStr>::from_str(s) {
            Ok(Derived::Dev) => Ok(Prof::Dev),
            Ok(Derived::Prod) => Ok(Prof::Prod),
            Ok(Derived::Ci) => Err("a profile nobody asked for"),
            Err(e) => {
                std::mem::forget(e);
                Err("unknown profile")
            }
        }
    }
}
/// which profile the loader last asked for its name (0 = none yet), and the name it was given - by
/// the derived `AsRef<str>` for the first two
static mut LAST_PROFILE_ASKED: u8 = 0;
static mut LAST_NAME: &str = "";
impl AsRef<str> for Prof {
    fn as_ref(&self) -> &str {
        let (k, n): (u8, &'static str) = match self.derived() {
            Some(Derived::Dev) => (1, unsafe { std::mem::transmute::<&str, &'static str>(Derived::Dev.as_ref()) }),
            Some(Derived::Prod) => (2, unsafe { std::mem::transmute::<&str, &'static str>(Derived::Prod.as_ref()) }),
            Some(Derived::Ci) => (4, "ci"),
            None => (3, "p.q"),
        };
        unsafe {
            LAST_PROFILE_ASKED = k;
            LAST_NAME = n;
        }
        n
    }
}
impl ConfigProfile for Prof {}

/// `format!("{}.yml", profile.as_ref())` is the only formatting on the success path; the formatting
/// machinery itself is beyond CBMC here, so the stub answers with "<name>.yml" for the profile whose
/// name the loader asked for last (its argument). What stays outside the claim is the literal
/// ".yml" suffix / "{}" template of that one format string.
fn fmt_stub(_a: std::fmt::Arguments<'_>) -> String {
    // "<name>.yml" with the name the profile's `AsRef<str>` returned (names of the harness: 3 bytes)
    let n = unsafe { LAST_NAME }.as_bytes();
    let mut v: Vec<u8> = Vec::with_capacity(8);
    let mut i = 0;
    while i < n.len() && i < 4 {
        v.push(n[i]);
        i += 1;
    }
    v.extend_from_slice(b".yml");
    unsafe { String::from_utf8_unchecked(v) }
}

/// The process environment: PX_PROFILE is absent, "dev", "prd" or something else ("zz").
static mut ENV_PROFILE: u8 = 0;
fn var_stub<K: AsRef<std::ffi::OsStr>>(_k: K) -> Result<String, std::env::VarError> {
    match unsafe { ENV_PROFILE } {
        0 => Err(std::env::VarError::NotPresent),
        1 => Ok(String::from("dev")),
        2 => Ok(String::from("prd")),
        _ => Ok(String::from("zz")),
    }
}

/// The working directory is part of the environment too: code that resolves a path against it
/// (`std::path::absolute`, `std::env::current_dir`) gets "/w" - a directory that is NOT the
/// configuration directory's parent, so resolving a relative configuration path early shows.
fn absolute_stub<P: AsRef<std::path::Path>>(path: P) -> std::io::Result<std::path::PathBuf> {
    let p = path.as_ref();
    if p.has_root() { Ok(p.to_path_buf()) } else { Ok(std::path::PathBuf::from("/w").join(p)) }
}
fn current_dir_stub() -> std::io::Result<std::path::PathBuf> {
    Ok(std::path::PathBuf::from("/w"))
}
/// `Path::with_extension` as std documents it ("replaces the extension, i.e. what follows the last
/// dot of the file name, or appends one"), loop-free for the file names the harness uses (<= 4 bytes
/// after the last '/'): std's own component parser runs CBMC out of memory.
fn with_extension_stub<S: AsRef<std::ffi::OsStr>>(this: &std::path::Path, ext: S) -> std::path::PathBuf {
    let b = this.as_os_str().as_encoded_bytes();
    let n = b.len();
    // position of the last '.' of the file name, not counting a leading dot: only the last four bytes can belong to it
    let is_sep = |k: usize| k >= n || b[n - 1 - k] == b'/';
    let is_dot = |k: usize| k < n && b[n - 1 - k] == b'.';
    // k = distance from the end; a dot at distance k counts if no separator lies behind it and it is not the first byte of the name
    let cut = if is_sep(0) {
        n
    } else if is_dot(0) && !is_sep(1) {
        n - 1
    } else if is_sep(1) {
        n
    } else if is_dot(1) && !is_sep(2) {
        n - 2
    } else if is_sep(2) {
        n
    } else if is_dot(2) && !is_sep(3) {
        n - 3
    } else {
        n
    };
    let e = ext.as_ref().as_encoded_bytes();
    let mut v: Vec<u8> = Vec::with_capacity(n + 1 + e.len());
    v.extend_from_slice(&b[..cut]);
    if !e.is_empty() {
        v.push(b'.');
        v.extend_from_slice(e);
    }
    std::path::PathBuf::from(unsafe { std::ffi::OsString::from_encoded_bytes_unchecked(v) })
}
fn set_extension_stub<S: AsRef<std::ffi::OsStr>>(this: &mut std::path::PathBuf, ext: S) -> bool {
    let has_name = this.as_os_str().as_encoded_bytes().last().map_or(false, |c| *c != b'/');
    if has_name {
        *this = with_extension_stub(this.as_path(), ext);
    }
    has_name
}

/// Under Kani the stub above answers for the environment; in a native run (nd::search) stubs do
/// not exist, so the real process environment is set instead.
fn set_env_profile(e: u8) {
    unsafe { ENV_PROFILE = e };
    #[cfg(test)]
    unsafe {
        match e {
            0 => std::env::remove_var("PX_PROFILE"),
            1 => std::env::set_var("PX_PROFILE", "dev"),
            2 => std::env::set_var("PX_PROFILE", "prd"),
            _ => std::env::set_var("PX_PROFILE", "zz"),
        }
    }
}

fn any_values() -> [[Option<u8>; 2]; 3] {
    let mut v = [[None; 2]; 3];
    let mut s = 0;
    while s < 3 {
        let mut k = 0;
        while k < 2 {
            if nd::any_bool() {
                v[s][k] = Some(nd::any_u8());
            }
            k += 1;
        }
        s += 1;
    }
    v
}

#[cfg(not(test))]
fn vtrace(_vals: &[[Option<u8>; 2]; 3], _explicit: Option<Prof>, _env: u8) {}
#[cfg(test)]
fn vtrace(vals: &[[Option<u8>; 2]; 3], explicit: Option<Prof>, env: u8) {
    let o = |v: Option<u8>| v.map(|n| n.to_string()).unwrap_or("null".to_string());
    let p = |p: Option<Prof>| match p { Some(Prof::Dev) => "\"dev\"", Some(Prof::Prod) => "\"prd\"", Some(Prof::Dot) => "\"p.q\"", None => "null" };
    let e = ["null", "\"dev\"", "\"prd\"", "\"zz\""][env as usize];
    nd::trace(|| format!("{{\"kind\":\"c18\",\"values\":[[{},{}],[{},{}],[{},{}]],\"explicit_profile\":{},\"env_profile\":{}}}",
        o(vals[0][0]), o(vals[0][1]), o(vals[1][0]), o(vals[1][1]), o(vals[2][0]), o(vals[2][1]), p(explicit), e));
}

fn check_outcome(r: &Result<Cfg, crate::config::errors::ConfigLoadError>, vals: &[[Option<u8>; 2]; 3]) {
    // documented precedence: environment, else profile file, else base file
    let want = |k: usize| vals[2][k].or(vals[1][k]).or(vals[0][k]);
    match (r, want(0), want(1)) {
        (Ok(c), Some(a), Some(b)) => {
            assert!(c.k0 == a, "k0 was not taken from the highest-precedence source that defines it");
            assert!(c.k1 == b, "k1 was not taken from the highest-precedence source that defines it");
        }
        (Err(_), a, b) => assert!(a.is_none() || b.is_none(), "a fully defined configuration must load"),
        (Ok(_), _, _) => assert!(false, "a missing required key must be an error, not a default"),
    }
    unsafe {
        assert!(fv::ENV_PREFIX_OK, "the environment provider is not prefixed with PX_");
        assert!(fv::ENV_SPLIT_OK, "the nesting separator of the environment provider is not __");
        use figment::providers::PROBE_ALIVE as alive;
        assert!(!alive[0], "PX_PROFILE is not excluded from the configuration keys");
        assert!(alive[1], "an ordinary PX_ variable is dropped by the environment provider");
        assert!(alive[2] && alive[3] && alive[4], "a PX_ variable whose name merely starts like PX_PROFILE is dropped: only PX_PROFILE itself is reserved");
        assert!(fv::BASE_FILE_OK, "the base file is not <dir>/base.yml");
        assert!(fv::PROFILE_FILE_OK, "the profile file is not <dir>/<profile>.yml");
        assert!(fv::DIR_OK, "a configuration file was looked up outside the configured directory");
    }
}

// @tier quick
// @obligation with an explicit profile (and PX_PROFILE absent, equal, different or invalid): the explicit profile selects the file; for every presence/value pattern of 2 keys over the 3 sources, each key is taken from the environment if present there, else the profile file, else the base file; a key defined nowhere makes load() fail; the environment provider gets prefix PX_, separator __ and ignores PROFILE; the files named are <dir>/base.yml and <dir>/<profile>.yml
// @bounds 2 keys x 3 sources (presence and u8 value arbitrary); profiles {dev, prd, p.q}; environment probe variables PROFILE, K0, PROFILES_DIR, PROFILE__LABEL, PROFILER__ON; configuration directory relative ("cf") or absolute ("/a")
// @functions ConfigLoader::new, ConfigLoader::profile, ConfigLoader::configuration_dir, ConfigLoader::load
// @timeout 1800
// @solver default
#[kani::proof]
#[kani::unwind(8)]
#[kani::stub(std::fmt::format, fmt_stub)]
#[kani::stub(std::env::var, var_stub)]
#[kani::stub(std::path::absolute, absolute_stub)]
#[kani::stub(std::env::current_dir, current_dir_stub)]
#[kani::stub(std::path::Path::with_extension, with_extension_stub)]
#[kani::stub(std::path::PathBuf::set_extension, set_extension_stub)]
fn c18_precedence_explicit_profile() {
    let vals = any_values();
    unsafe { fv::VALUES = vals };
    let p = match nd::u8_below(3) {
        0 => Prof::Dev,
        1 => Prof::Prod,
        _ => Prof::Dot,
    };
    // whatever PX_PROFILE says, an explicit profile wins ("rather than loading it from PX_PROFILE")
    let e: u8 = nd::u8_below(4);
    set_env_profile(e);
    unsafe { LAST_PROFILE_ASKED = 0 };
    unsafe { fv::DIR_OK = true };
    vtrace(&vals, Some(p), e);
    unsafe {
        fv::EXPECT_PROFILE_FILE = match p {
            Prof::Dev => *b"/dev.yml",
            Prof::Prod => *b"/prd.yml",
            Prof::Dot => *b"/p.q.yml",
        }
    };
    // relative or absolute configuration directory
    let abs: bool = nd::any_bool();
    unsafe { fv::EXPECT_DIR = if abs { "/a" } else { "cf" } };
    let r: Result<Cfg, _> = ConfigLoader::<Prof>::new().profile(p).configuration_dir(if abs { "/a" } else { "cf" }).load();
    check_outcome(&r, &vals);
    kani::cover!(r.is_ok() && vals[2][0].is_some() && vals[1][0].is_some() && vals[0][0].is_some(), "all three sources define k0");
    kani::cover!(r.is_err(), "a key defined nowhere");
    kani::cover!(r.is_ok() && p == Prof::Dev && e == 2, "explicit dev although PX_PROFILE=prd");
    kani::cover!(r.is_ok() && p == Prof::Dot, "a profile whose name contains a dot");
    std::mem::forget(r);
}

// @tier quick
// @obligation without an explicit profile: PX_PROFILE selects the profile (dev / prd); an absent or unknown PX_PROFILE makes load() fail - never a default profile; with a valid one the precedence law of c18_precedence_explicit_profile holds (default directory "configuration")
// @bounds as c18_precedence_explicit_profile; PX_PROFILE in {absent, "dev", "prd", "zz"}
// @functions ConfigProfile::load, ConfigLoader::load
// @timeout 1800
// @solver default
#[kani::proof]
#[kani::unwind(8)]
#[kani::stub(std::fmt::format, fmt_stub)]
#[kani::stub(std::env::var, var_stub)]
#[kani::stub(std::path::absolute, absolute_stub)]
#[kani::stub(std::env::current_dir, current_dir_stub)]
#[kani::stub(std::path::Path::with_extension, with_extension_stub)]
#[kani::stub(std::path::PathBuf::set_extension, set_extension_stub)]
fn c18_profile_from_environment() {
    let vals = any_values();
    unsafe { fv::VALUES = vals };
    let e: u8 = nd::u8_below(4);
    set_env_profile(e);
    unsafe { LAST_PROFILE_ASKED = 0 };
    unsafe { fv::DIR_OK = true };
    vtrace(&vals, None, e);
    unsafe { fv::EXPECT_PROFILE_FILE = if e == 2 { *b"/prd.yml" } else { *b"/dev.yml" } };
    unsafe { fv::EXPECT_DIR = "configuration" };
    let r: Result<Cfg, _> = ConfigLoader::<Prof>::new().load();
    if e == 0 || e == 3 {
        assert!(r.is_err(), "a missing or unknown PX_PROFILE must be an error, not a default profile");
    } else {
        check_outcome(&r, &vals);
    }
    kani::cover!(e == 2 && r.is_ok(), "prd selected through the environment");
    kani::cover!(e == 0 && r.is_err(), "absent PX_PROFILE rejected");
    std::mem::forget(r);
}

#[cfg(test)]
mod native_search {
    use super::*;
    fn reset() {
        unsafe {
            fv::ENV_PREFIX_OK = false;
            fv::ENV_SPLIT_OK = false;
            fv::PROFILE_FILE_OK = false;
            fv::BASE_FILE_OK = false;
            fv::DIR_OK = true;
            LAST_PROFILE_ASKED = 0;
        }
    }
    #[test]
    fn c18_precedence_explicit_profile() { nd::search("c18_precedence_explicit_profile", super::c18_precedence_explicit_profile, reset) }
    #[test]
    fn c18_profile_from_environment() { nd::search("c18_profile_from_environment", super::c18_profile_from_environment, reset) }
}
