// ------------------------------------------------------------------------------------------------
// Verification harnesses for C13 (the in-memory session store is a map with expiry).
// Child module of the scratch copy of runtime/sessions/pavex_session_memory_store/src/lib.rs.
//
// One inductive step per query: an arbitrary store content (<= 2 records over the ids {A, B},
// arbitrary states and deadlines, stale records included), an arbitrary instant, ONE operation
// with arbitrary arguments, compared with a reference map-with-deadlines. Time is a symbolic
// variable (the `Timestamp::now()` of the shim, in ticks of a quarter second), so "exactly at the deadline" and "one tick
// after" are ordinary cases. Sequential only: the lock is the uncontended shim.
// ------------------------------------------------------------------------------------------------
#![allow(dead_code, unused_imports, clippy::all)]

use super::*;
#[path = "nd.rs"]
mod nd;
use pavex::time::{verif_duration, verif_set_now, verif_ticks};
use serde_json::Value;

fn fmt_stub(_a: std::fmt::Arguments<'_>) -> String {
    String::new()
}

// Tracing for native replay (only compiled when a counterexample is played back: cfg(test)).
#[cfg(not(test))]
fn vtrace_world(_w: &World) {}
#[cfg(not(test))]
fn vtrace_op(_name: &str, _i: usize, _j: usize, _st: &VMap, _batch: u8) {}
#[cfg(not(test))]
fn vtrace_ttl(_t: Duration) {}
#[cfg(test)]
fn vtrace_ttl(t: Duration) {
    nd::trace(|| format!("{{\"kind\":\"ttl\",\"ticks\":{}}}", verif_ticks(t)));
}
#[cfg(test)]
fn jm(m: &VMap) -> String {
    let j = |c: u8| match c { 0 => "null".to_string(), 1 => "\"nil\"".to_string(), 2 => "false".to_string(), _ => "true".to_string() };
    format!("[{},{}]", j(m[0]), j(m[1]))
}
#[cfg(test)]
fn vtrace_world(w: &World) {
    let r = |r: &MRec| if r.present { format!("{{\"state\":{},\"deadline\":{}}}", jm(&r.state), r.deadline) } else { "null".to_string() };
    nd::trace(|| format!("{{\"kind\":\"store\",\"a\":{},\"b\":{},\"now\":{}}}", r(&w.m.recs[0]), r(&w.m.recs[1]), w.now));
}
#[cfg(test)]
fn vtrace_op(name: &str, i: usize, j: usize, st: &VMap, batch: u8) {
    let l = |i: usize| if i == 0 { "A" } else { "B" };
    nd::trace(|| format!("{{\"kind\":\"op\",\"name\":\"{name}\",\"id\":\"{}\",\"to\":\"{}\",\"state\":{},\"batch\":{batch}}}", l(i), l(j), jm(st)));
}

const KA: &str = "a";
const KB: &str = "b";
type Code = u8; // 0 nothing, 1 null, 2 false, 3 true
type VMap = [Code; 2];
fn dec(c: Code) -> Option<Value> {
    match c {
        0 => None,
        1 => Some(Value::Null),
        2 => Some(Value::Bool(false)),
        _ => Some(Value::Bool(true)),
    }
}
fn enc(v: Option<Value>) -> Code {
    match v {
        None => 0,
        Some(Value::Null) => 1,
        Some(Value::Bool(false)) => 2,
        Some(Value::Bool(true)) => 3,
        Some(Value::Number(_)) => 4,
    }
}
type State = HashMap<Cow<'static, str>, Value>;
fn to_state(m: &VMap) -> State {
    // the store never looks inside a state: a fixed slot order is enough here
    let ea = dec(m[0]).map(|v| (Cow::Borrowed(KA), v));
    let eb = dec(m[1]).map(|v| (Cow::Borrowed(KB), v));
    State::from_slots([ea, eb])
}
fn of_state(s: &State) -> VMap {
    let mut m = [0, 0];
    let e = s.entries();
    if let Some((k, v)) = e[0] {
        let b = k.as_bytes();
        if b.len() == 1 && b[0] == b'a' { m[0] = enc(Some(*v)) } else if b.len() == 1 && b[0] == b'b' { m[1] = enc(Some(*v)) }
    }
    if let Some((k, v)) = e[1] {
        let b = k.as_bytes();
        if b.len() == 1 && b[0] == b'a' { m[0] = enc(Some(*v)) } else if b.len() == 1 && b[0] == b'b' { m[1] = enc(Some(*v)) }
    }
    m
}
/// The store never looks inside a state, it only carries it: one key is enough to tell two states
/// apart (4 values), and halves the map handling in every query.
fn any_vmap() -> VMap {
    [nd::u8_below(4), 0]
}

fn sid(n: u128) -> SessionId {
    unsafe { std::mem::transmute::<uuid::Uuid, SessionId>(uuid::Uuid::from_u128(n)) }
}
const ID_A: u128 = 1;
const ID_B: u128 = 2;

/// Reference model: per id, what is filed and until when. A record is *live* while now < deadline.
#[derive(Clone, Copy, PartialEq, Eq)]
struct MRec {
    present: bool,
    state: VMap,
    deadline: i64,
}
const NOREC: MRec = MRec { present: false, state: [0, 0], deadline: 0 };
#[derive(Clone, Copy)]
struct Model {
    recs: [MRec; 2],
}
impl Model {
    fn live(&self, i: usize, now: i64) -> bool {
        self.recs[i].present && self.recs[i].deadline > now
    }
    /// what an observer can see of id `i` at `now`
    fn view(&self, i: usize, now: i64) -> MRec {
        if self.live(i, now) { self.recs[i] } else { NOREC }
    }
}

const T_MAX: i64 = 1000;
const TTL_MAX: u64 = 100;

fn any_mrec() -> MRec {
    if nd::any_bool() {
        let deadline: i64 = nd::i64_in(0, T_MAX);
        MRec { present: true, state: any_vmap(), deadline }
    } else {
        NOREC
    }
}

/// Build the real store with exactly the model's content (stale records included: they are
/// physically there until somebody purges them).
fn build(m: &Model, symbolic_slot_order: bool) -> InMemorySessionStore {
    let e = |i: usize, id: u128| -> Option<(SessionId, StoreRecord)> {
        if m.recs[i].present {
            Some((sid(id), StoreRecord { state: to_state(&m.recs[i].state), deadline: Timestamp(m.recs[i].deadline) }))
        } else {
            None
        }
    };
    let (ea, eb) = (e(0, ID_A), e(1, ID_B));
    // the physical order of the two records only matters to the one operation that iterates
    let map = if symbolic_slot_order && nd::any_bool() { HashMap::from_slots([eb, ea]) } else { HashMap::from_slots([ea, eb]) };
    InMemorySessionStore(Arc::new(Mutex::new(map)))
}

/// The physical content filed under id `i` in the real store (stale or not).
fn phys(s: &InMemorySessionStore, i: usize) -> MRec {
    let g = s.0.lock();
    let id = sid(if i == 0 { ID_A } else { ID_B });
    match g.get(&id) {
        Some(r) => MRec { present: true, state: of_state(&r.state), deadline: r.deadline.0 },
        None => NOREC,
    }
}
/// what an observer can see of a record at instant `t`
fn view_at(r: &MRec, t: i64) -> MRec {
    if r.present && r.deadline > t { *r } else { NOREC }
}
fn physically_present(s: &InMemorySessionStore, i: usize) -> bool {
    phys(s, i).present
}

struct World {
    m: Model,
    s: InMemorySessionStore,
    now: i64,
}
fn any_world() -> World {
    any_world_o(false)
}
fn any_world_o(symbolic_slot_order: bool) -> World {
    let m = Model { recs: [any_mrec(), any_mrec()] };
    let now: i64 = nd::i64_in(0, T_MAX);
    verif_set_now(now);
    let s = build(&m, symbolic_slot_order);
    let w = World { m, s, now };
    vtrace_world(&w);
    w
}
/// NOTE: ids are passed to the store as *constants* on each branch (`if any_bool() { f(0) } else
/// { f(1) }`), never as one symbolic index: reading a record's state through a slot reference
/// obtained with a symbolic key is mis-modelled by CBMC 6.11 (nondeterministic content), a
/// spurious counterexample that does not reproduce concretely.
fn any_idx() -> usize {
    if nd::any_bool() { 0 } else { 1 }
}
fn id_of(i: usize) -> SessionId {
    sid(if i == 0 { ID_A } else { ID_B })
}
/// a ttl of 1..=TTL_MAX ticks (quarter seconds): sub-second ttls and fractional parts included - or a
/// huge one, between 2^63 and 2^64 nanoseconds (292 to 584 years: "never expire" configurations), where
/// arithmetic in signed nanoseconds wraps
fn any_ttl() -> Duration {
    if nd::any_bool() {
        let t: u64 = nd::u64_in(1, TTL_MAX);
        verif_duration(t as i64)
    } else {
        Duration::from_secs(nd::u64_in(HUGE_TTL_LO_S, HUGE_TTL_HI_S))
    }
}
const HUGE_TTL_LO_S: u64 = 9_223_372_037;
const HUGE_TTL_HI_S: u64 = 18_446_744_073;

/// After the operation: the observable content equals the model's at `now`, and stays equal as
/// time goes by (compared again at an arbitrary later instant: a stale record must never come back).
fn check_views(w: &World, m2: &Model) {
    let (pa, pb) = (phys(&w.s, 0), phys(&w.s, 1));
    assert!(view_at(&pa, w.now) == m2.view(0, w.now), "record A: observable content differs from the reference map");
    assert!(view_at(&pb, w.now) == m2.view(1, w.now), "record B: observable content differs from the reference map");
    let later: i64 = nd::i64_in(w.now, T_MAX + TTL_MAX as i64 + 1);
    assert!(view_at(&pa, later) == m2.view(0, later), "record A: observable content differs from the reference map at a later instant");
    assert!(view_at(&pb, later) == m2.view(1, later), "record B: observable content differs from the reference map at a later instant");
}

// @tier quick
// @obligation load(id) from every store content and instant: returns exactly the live record's state with ttl = deadline - now, None for an absent or expired (deadline <= now) record; the observable content is unchanged
// @bounds <= 2 records over ids {A,B}; states over keys {a,b} x {null,false,true}; deadlines and now in 0..=1000 s
// @functions InMemorySessionStore::load, get_mut_if_fresh, StoreRecord::is_stale
#[kani::proof]
#[kani::unwind(4)]
#[kani::stub(std::fmt::format, fmt_stub)]
fn c13_load() {
    let w = any_world();
    if nd::any_bool() { load_body(&w, 0) } else { load_body(&w, 1) }
    std::mem::forget(w);
}
fn load_body(w: &World, i: usize) {
    vtrace_op("load", i, i, &[0, 0], 0);
    let r = w.s.load(&id_of(i));
    match &r {
        Ok(Some(rec)) => {
            assert!(w.m.live(i, w.now), "load returned an expired or absent record");
            assert!(of_state(&rec.state) == w.m.recs[i].state, "load returned a state other than the one last written");
            assert!(verif_ticks(rec.ttl) == w.m.recs[i].deadline - w.now, "load reported a wrong remaining ttl");
        }
        Ok(None) => assert!(!w.m.live(i, w.now), "load hid a live record"),
        Err(_) => assert!(false, "load failed"),
    }
    check_views(w, &w.m);
    kani::cover!(matches!(&r, Ok(None)) && w.m.recs[i].present && w.m.recs[i].deadline == w.now, "expired exactly now");
    kani::cover!(matches!(&r, Ok(Some(_))), "live record loaded");
    std::mem::forget(r);
    std::mem::forget(w);
}

// @tier quick
// @obligation create / update / update_ttl(id, ..) from every store content and instant: create refuses a live record (DuplicateId) and otherwise files (state, now+ttl) - also over an expired one; update / update_ttl fail with UnknownId on absent or expired records (which stay unobservable for ever) and otherwise replace state+deadline / the deadline; the other record is untouched
// @bounds as c13_load; ttl 1..=100 s
// @functions InMemorySessionStore::{create,update,update_ttl}, get_mut_if_fresh
#[kani::proof]
#[kani::unwind(4)]
#[kani::stub(std::fmt::format, fmt_stub)]
fn c13_write_ops() {
    let w = any_world();
    if nd::any_bool() { write_body(&w, 0) } else { write_body(&w, 1) }
    std::mem::forget(w);
}
fn write_body(w: &World, i: usize) {
    let id = id_of(i);
    let ttl = any_ttl();
    vtrace_ttl(ttl);
    let st = any_vmap();
    let mut m2 = w.m;
    let live = w.m.live(i, w.now);
    let fresh = MRec { present: true, state: st, deadline: w.now + verif_ticks(ttl) };
    let op: u8 = nd::u8_below(3);
    vtrace_op(["create", "update", "update_ttl"][op as usize], i, i, &st, 0);
    match op {
        0 => {
            let r = w.s.create(&id, SessionRecordRef { state: Cow::Owned(to_state(&st)), ttl });
            if live {
                assert!(matches!(&r, Err(CreateError::DuplicateId(_))), "create overwrote (or mis-reported on) a live record");
            } else {
                assert!(r.is_ok(), "create failed although no live record holds the id");
                m2.recs[i] = fresh;
            }
            std::mem::forget(r);
        }
        1 => {
            let r = w.s.update(&id, SessionRecordRef { state: Cow::Owned(to_state(&st)), ttl });
            if live {
                assert!(r.is_ok(), "update failed on a live record");
                m2.recs[i] = fresh;
            } else {
                assert!(matches!(&r, Err(UpdateError::UnknownIdError(_))), "update on an absent/expired record must fail with unknown-id");
            }
            std::mem::forget(r);
        }
        _ => {
            let r = w.s.update_ttl(&id, ttl);
            if live {
                assert!(r.is_ok(), "update_ttl failed on a live record");
                m2.recs[i].deadline = fresh.deadline;
            } else {
                assert!(matches!(&r, Err(UpdateTtlError::UnknownId(_))), "update_ttl on an absent/expired record must fail with unknown-id");
            }
            std::mem::forget(r);
        }
    }
    check_views(w, &m2);
    kani::cover!(op == 0 && !live && w.m.recs[i].present, "create over an expired record");
    kani::cover!(op == 2 && !live && w.m.recs[i].present, "update_ttl on an expired record");
    kani::cover!(op == 1 && live, "update of a live record");
    std::mem::forget(w);
}

// @tier quick
// @obligation delete(id) from every store content and instant: removes a live record, fails with UnknownId on an absent or expired one (which stays unobservable); the other record is untouched
// @bounds as c13_load
// @functions InMemorySessionStore::delete, _delete
#[kani::proof]
#[kani::unwind(4)]
#[kani::stub(std::fmt::format, fmt_stub)]
fn c13_delete() {
    let w = any_world();
    if nd::any_bool() { delete_body(&w, 0) } else { delete_body(&w, 1) }
    std::mem::forget(w);
}
fn delete_body(w: &World, i: usize) {
    let mut m2 = w.m;
    let live_i = w.m.live(i, w.now);
    vtrace_op("delete", i, i, &[0, 0], 0);
    let r = w.s.delete(&id_of(i));
    if live_i {
        assert!(r.is_ok(), "delete failed on a live record");
        m2.recs[i] = NOREC;
    } else {
        assert!(matches!(&r, Err(DeleteError::UnknownId(_))), "delete on an absent/expired record must fail with unknown-id");
    }
    std::mem::forget(r);
    check_views(w, &m2);
    kani::cover!(!live_i && w.m.recs[i].present, "delete of an expired record");
    kani::cover!(live_i, "delete of a live record");
}

// @tier quick
// @obligation change_id(old,new) from every store content and instant: refuses a live target (DuplicateId, nothing changes), fails with UnknownId when the source is absent/expired (nothing changes), otherwise moves state and deadline to the new id and leaves nothing under the old one
// @bounds as c13_load; old/new range over {A,B} (old == new included)
// @functions InMemorySessionStore::change_id, _delete, get_mut_if_fresh
// @timeout 1800
#[kani::proof]
#[kani::unwind(4)]
#[kani::stub(std::fmt::format, fmt_stub)]
fn c13_change_id() {
    let w = any_world();
    let c: u8 = nd::u8_below(4);
    match c {
        0 => change_body(&w, 0, 0),
        1 => change_body(&w, 0, 1),
        2 => change_body(&w, 1, 0),
        _ => change_body(&w, 1, 1),
    }
    std::mem::forget(w);
}
fn change_body(w: &World, i: usize, j: usize) {
    let mut m2 = w.m;
    let live_i = w.m.live(i, w.now);
    let live_j = w.m.live(j, w.now);
    vtrace_op("change_id", i, j, &[0, 0], 0);
    let r = w.s.change_id(&id_of(i), &id_of(j));
    if live_j {
        assert!(matches!(&r, Err(ChangeIdError::DuplicateId(_))), "change_id onto a live record must fail with duplicate-id");
    } else if !live_i {
        assert!(matches!(&r, Err(ChangeIdError::UnknownId(_))), "change_id of an absent/expired record must fail with unknown-id");
    } else {
        assert!(r.is_ok(), "change_id failed although the source is live and the target free");
        let moved = w.m.recs[i];
        m2.recs[i] = NOREC;
        m2.recs[j] = moved;
    }
    std::mem::forget(r);
    check_views(w, &m2);
    kani::cover!(i != j && live_i && live_j, "change_id onto a live record");
    kani::cover!(i != j && live_i && w.m.recs[j].present && !live_j, "change_id onto an expired record");
}

fn delete_expired_body(b: u8) -> (usize, bool) {
    let w = any_world_o(true);
    let batch = NonZeroUsize::new(b as usize);
    let stale = |i: usize| w.m.recs[i].present && !w.m.live(i, w.now);
    let n_stale = stale(0) as usize + stale(1) as usize;
    vtrace_op("delete_expired", 0, 0, &[0, 0], b);
    let r = w.s.delete_expired(batch);
    let (pa, pb) = (physically_present(&w.s, 0), physically_present(&w.s, 1));
    let purged = (w.m.recs[0].present && !pa) as usize + (w.m.recs[1].present && !pb) as usize;
    match &r {
        Ok(n) => {
            assert!(*n == purged, "delete_expired reported a count other than the number of records it removed");
            assert!(b == 0 || *n <= b as usize, "delete_expired exceeded the batch size");
            assert!(*n == if b == 0 { n_stale } else if n_stale < b as usize { n_stale } else { b as usize }, "delete_expired removed fewer expired records than it could");
        }
        Err(_) => assert!(false, "delete_expired failed"),
    }
    // live records untouched, stale ones still unobservable
    check_views(&w, &w.m);
    assert!(!w.m.live(0, w.now) || pa, "delete_expired removed a live record");
    assert!(!w.m.live(1, w.now) || pb, "delete_expired removed a live record");
    let one_live = w.m.live(0, w.now);
    std::mem::forget(r);
    std::mem::forget(w);
    (n_stale, one_live)
}

// @tier quick
// @obligation delete_expired(None) from every store content, physical record order and instant: every expired record is physically gone, live records are untouched, the count returned equals the number of records purged
// @bounds as c13_load; both physical orders of the two records
// @functions InMemorySessionStore::delete_expired
// @timeout 1800
// @mem 40
#[kani::proof]
#[kani::unwind(4)]
#[kani::stub(std::fmt::format, fmt_stub)]
fn c13_delete_expired_all() {
    let (n_stale, one_live) = delete_expired_body(0);
    kani::cover!(n_stale == 2, "two expired records");
    kani::cover!(n_stale == 1 && one_live, "one stale, one live");
}

// @tier quick
// @obligation delete_expired(Some(1)): exactly min(1, #expired) records are purged and reported, never a live one, whatever the physical order
// @bounds as c13_load; both physical orders
// @functions InMemorySessionStore::delete_expired
// @timeout 1800
// @mem 40
#[kani::proof]
#[kani::unwind(4)]
#[kani::stub(std::fmt::format, fmt_stub)]
fn c13_delete_expired_batch1() {
    let (n_stale, one_live) = delete_expired_body(1);
    kani::cover!(n_stale == 2, "batch smaller than the backlog");
    kani::cover!(n_stale == 1 && one_live, "one stale, one live");
}

// @tier thorough
// @obligation delete_expired(Some(2)): batch equal to the capacity of the bound
// @bounds as c13_load; both physical orders
// @functions InMemorySessionStore::delete_expired
// @timeout 1800
// @mem 40
#[kani::proof]
#[kani::unwind(4)]
#[kani::stub(std::fmt::format, fmt_stub)]
fn c13_delete_expired_batch2() {
    let (n_stale, _one_live) = delete_expired_body(2);
    kani::cover!(n_stale == 2, "batch equal to the backlog");
}

// ------------------------------------------------------------------------------------------------
// The concurrency clause ("concurrent callers see a history consistent with some sequential order of
// their operations"), two callers, preemption at lock boundaries. The store protects its map with one
// mutex; an operation is atomic exactly as long as it holds that lock from its first look at the map to
// its last write. If it lets the lock go and takes it again, another task may run a complete operation
// in between - the tokio shim calls `other_task` at every acquisition after the first (see
// shims/tokio). The other task performs ONE arbitrary operation with the reference semantics; the
// outcome (both results, the observable content now and later) must equal what one of the two
// sequential orders gives. An operation that locks once never sees the other task: for it the harness
// degenerates to the sequential check.
// ------------------------------------------------------------------------------------------------
#[derive(Clone, Copy, PartialEq, Eq)]
struct OpD {
    /// 0 create, 1 update, 2 update_ttl, 3 delete, 4 change_id, 5 load, 6 delete_expired(None)
    k: u8,
    i: usize,
    j: usize,
    st: VMap,
    ttl: i64,
}
const OP_NAMES: [&str; 7] = ["create", "update", "update_ttl", "delete", "change_id", "load", "delete_expired"];
/// what an operation answered: a result code plus, for `load`, the state and remaining ttl (ticks) it
/// returned and, for `delete_expired`, the count
#[derive(Clone, Copy, PartialEq, Eq)]
struct Res {
    code: u8,
    aux: i64,
    st: VMap,
}
const fn res(code: u8) -> Res {
    Res { code, aux: 0, st: [0, 0] }
}
const R_NONE: u8 = 3;
const R_OK: u8 = 0;
const R_UNKNOWN: u8 = 1;
const R_DUPLICATE: u8 = 2;
const R_OTHER: u8 = 7;
const R_NOT_RUN: u8 = 9;

/// the documented semantics of one operation on the reference map
fn model_apply(m: &Model, o: &OpD, now: i64) -> (Res, Model) {
    let mut m2 = *m;
    let live_i = m.live(o.i, now);
    let fresh = MRec { present: true, state: o.st, deadline: now + o.ttl };
    match o.k {
        0 => {
            if live_i {
                (res(R_DUPLICATE), m2)
            } else {
                m2.recs[o.i] = fresh;
                (res(R_OK), m2)
            }
        }
        1 => {
            if live_i {
                m2.recs[o.i] = fresh;
                (res(R_OK), m2)
            } else {
                (res(R_UNKNOWN), m2)
            }
        }
        2 => {
            if live_i {
                m2.recs[o.i].deadline = fresh.deadline;
                (res(R_OK), m2)
            } else {
                (res(R_UNKNOWN), m2)
            }
        }
        3 => {
            if live_i {
                m2.recs[o.i] = NOREC;
                (res(R_OK), m2)
            } else {
                (res(R_UNKNOWN), m2)
            }
        }
        5 => {
            if live_i {
                (Res { code: R_OK, aux: m.recs[o.i].deadline - now, st: m.recs[o.i].state }, m2)
            } else {
                (res(R_NONE), m2)
            }
        }
        6 => {
            let stale = |i: usize| m.recs[i].present && !m.live(i, now);
            let n = stale(0) as i64 + stale(1) as i64;
            if stale(0) {
                m2.recs[0] = NOREC;
            }
            if stale(1) {
                m2.recs[1] = NOREC;
            }
            (Res { code: R_OK, aux: n, st: [0, 0] }, m2)
        }
        _ => {
            if m.live(o.j, now) {
                (res(R_DUPLICATE), m2)
            } else if !live_i {
                (res(R_UNKNOWN), m2)
            } else {
                let moved = m.recs[o.i];
                m2.recs[o.i] = NOREC;
                m2.recs[o.j] = moved;
                (res(R_OK), m2)
            }
        }
    }
}

static mut ADV_OP: OpD = OpD { k: 0, i: 0, j: 0, st: [0, 0], ttl: 1 };
static mut ADV_NOW: i64 = 0;
static mut ADV_RES: Res = res(R_NOT_RUN);

fn raw_rec(map: &HashMap<SessionId, StoreRecord>, id: u128) -> MRec {
    match map.get(&sid(id)) {
        Some(r) => MRec { present: true, state: of_state(&r.state), deadline: r.deadline.0 },
        None => NOREC,
    }
}
fn raw_put(map: &mut HashMap<SessionId, StoreRecord>, id: u128, before: &MRec, after: &MRec) {
    if *before == *after {
        return;
    }
    if after.present {
        let old = map.insert(sid(id), StoreRecord { state: to_state(&after.state), deadline: Timestamp(after.deadline) });
        std::mem::forget(old);
    } else {
        let old = map.remove(&sid(id));
        std::mem::forget(old);
    }
}
/// The other task: one complete operation, executed atomically on the protected map while the
/// operation under test is between two critical sections.
fn other_task(p: *mut ()) {
    unsafe {
        if ADV_RES.code != R_NOT_RUN {
            return;
        }
        let map = &mut *(p as *mut HashMap<SessionId, StoreRecord>);
        let cur = Model { recs: [raw_rec(map, ID_A), raw_rec(map, ID_B)] };
        let op = ADV_OP;
        let (res, next) = model_apply(&cur, &op, ADV_NOW);
        raw_put(map, ID_A, &cur.recs[0], &next.recs[0]);
        raw_put(map, ID_B, &cur.recs[1], &next.recs[1]);
        ADV_RES = res;
    }
}

fn any_op(kinds_lo: u8, kinds_hi: u8) -> OpD {
    let k = kinds_lo + nd::u8_below(kinds_hi - kinds_lo);
    OpD { k, i: any_idx(), j: any_idx(), st: any_vmap(), ttl: nd::u64_in(1, TTL_MAX) as i64 }
}

/// run the operation under test on the real store (ids as constants per branch, see `any_idx`)
fn exec_real(s: &InMemorySessionStore, o: &OpD) -> Res {
    let ttl = verif_duration(o.ttl);
    let rec = || SessionRecordRef { state: Cow::Owned(to_state(&o.st)), ttl };
    match o.k {
        0 => {
            let r = if o.i == 0 { s.create(&id_of(0), rec()) } else { s.create(&id_of(1), rec()) };
            let c = match &r { Ok(()) => R_OK, Err(CreateError::DuplicateId(_)) => R_DUPLICATE, Err(_) => R_OTHER };
            std::mem::forget(r);
            res(c)
        }
        1 => {
            let r = if o.i == 0 { s.update(&id_of(0), rec()) } else { s.update(&id_of(1), rec()) };
            let c = match &r { Ok(()) => R_OK, Err(UpdateError::UnknownIdError(_)) => R_UNKNOWN, Err(_) => R_OTHER };
            std::mem::forget(r);
            res(c)
        }
        2 => {
            let r = if o.i == 0 { s.update_ttl(&id_of(0), ttl) } else { s.update_ttl(&id_of(1), ttl) };
            let c = match &r { Ok(()) => R_OK, Err(UpdateTtlError::UnknownId(_)) => R_UNKNOWN, Err(_) => R_OTHER };
            std::mem::forget(r);
            res(c)
        }
        3 => {
            let r = if o.i == 0 { s.delete(&id_of(0)) } else { s.delete(&id_of(1)) };
            let c = match &r { Ok(()) => R_OK, Err(DeleteError::UnknownId(_)) => R_UNKNOWN, Err(_) => R_OTHER };
            std::mem::forget(r);
            res(c)
        }
        5 => {
            let r = if o.i == 0 { s.load(&id_of(0)) } else { s.load(&id_of(1)) };
            let out = match &r {
                Ok(Some(rec)) => Res { code: R_OK, aux: verif_ticks(rec.ttl), st: of_state(&rec.state) },
                Ok(None) => res(R_NONE),
                Err(_) => res(R_OTHER),
            };
            std::mem::forget(r);
            out
        }
        6 => {
            let r = s.delete_expired(None);
            let out = match &r {
                Ok(n) => Res { code: R_OK, aux: *n as i64, st: [0, 0] },
                Err(_) => res(R_OTHER),
            };
            std::mem::forget(r);
            out
        }
        _ => {
            let r = match (o.i, o.j) {
                (0, 0) => s.change_id(&id_of(0), &id_of(0)),
                (0, _) => s.change_id(&id_of(0), &id_of(1)),
                (_, 0) => s.change_id(&id_of(1), &id_of(0)),
                _ => s.change_id(&id_of(1), &id_of(1)),
            };
            let c = match &r { Ok(()) => R_OK, Err(ChangeIdError::UnknownId(_)) => R_UNKNOWN, Err(ChangeIdError::DuplicateId(_)) => R_DUPLICATE, Err(_) => R_OTHER };
            std::mem::forget(r);
            res(c)
        }
    }
}

fn views_match(pa: &MRec, pb: &MRec, m: &Model, now: i64, later: i64) -> bool {
    view_at(pa, now) == m.view(0, now) && view_at(pb, now) == m.view(1, now) && view_at(pa, later) == m.view(0, later) && view_at(pb, later) == m.view(1, later)
}

#[cfg(not(test))]
fn vtrace_race(_o: &OpD, _a: &OpD) {}
#[cfg(test)]
fn vtrace_race(o: &OpD, a: &OpD) {
    let l = |i: usize| if i == 0 { "A" } else { "B" };
    let f = |o: &OpD| format!("{{\"name\":\"{}\",\"id\":\"{}\",\"to\":\"{}\",\"state\":{},\"ttl_ticks\":{}}}", OP_NAMES[o.k as usize], l(o.i), l(o.j), jm(&o.st), o.ttl);
    nd::trace(|| format!("{{\"kind\":\"race\",\"ours\":{},\"other\":{}}}", f(o), f(a)));
}

fn interleaved_body(kinds_lo: u8, kinds_hi: u8) {
    // delete_expired iterates over the map: both physical orders of the two records
    let w = any_world_o(kinds_hi > 5);
    let o = any_op(kinds_lo, kinds_hi);
    let a = any_op(0, 5);
    vtrace_race(&o, &a);
    unsafe {
        ADV_OP = a;
        ADV_NOW = w.now;
        ADV_RES = res(R_NOT_RUN);
        tokio::verif::LOCKS = 0;
        tokio::verif::ON_RELOCK = Some(other_task);
    }
    let r = exec_real(&w.s, &o);
    unsafe { tokio::verif::ON_RELOCK = None };
    let ar = unsafe { ADV_RES };
    let (pa, pb) = (phys(&w.s, 0), phys(&w.s, 1));
    let later: i64 = nd::i64_in(w.now, T_MAX + TTL_MAX as i64 + 1);
    if ar.code == R_NOT_RUN {
        // one critical section: nobody can get in between
        let (want, m2) = model_apply(&w.m, &o, w.now);
        assert!(r == want, "the operation's result differs from the reference map's");
        assert!(views_match(&pa, &pb, &m2, w.now, later), "the observable content differs from the reference map's");
    } else {
        // the other task ran between two critical sections of the operation under test
        let (ra1, m1) = model_apply(&w.m, &a, w.now);
        let (ro1, m1) = model_apply(&m1, &o, w.now);
        let (ro2, m2) = model_apply(&w.m, &o, w.now);
        let (ra2, m2) = model_apply(&m2, &a, w.now);
        let other_first = r == ro1 && ar == ra1 && views_match(&pa, &pb, &m1, w.now, later);
        let ours_first = r == ro2 && ar == ra2 && views_match(&pa, &pb, &m2, w.now, later);
        assert!(other_first || ours_first, "an operation that lets go of the store lock midway produced an outcome that no sequential order of the two callers explains");
    }
    kani::cover!(r.code == R_OK, "the operation under test succeeds");
    kani::cover!(r.code != R_OK, "the operation under test is refused / finds nothing");
    std::mem::forget(w);
}

// @tier quick
// @obligation two callers, preemption at lock boundaries: create / update / update_ttl with another task running one arbitrary complete operation (create, update, update_ttl, delete, change_id on either id) whenever the operation under test re-acquires the store lock: both results and the observable content (now and at any later instant) equal those of one of the two sequential orders
// @bounds as c13_write_ops; the other task performs at most one operation; interference only between two lock acquisitions of the same operation (the mutex excludes everything else)
// @functions InMemorySessionStore::{create,update,update_ttl}, tokio::sync::Mutex::lock (interference hook)
// @timeout 1800
#[kani::proof]
#[kani::unwind(4)]
#[kani::stub(std::fmt::format, fmt_stub)]
fn c13_interleaved_writes() {
    interleaved_body(0, 3);
}

// @tier quick
// @obligation as c13_interleaved_writes, for delete and change_id as the operation under test
// @bounds as c13_change_id; the other task performs at most one operation
// @functions InMemorySessionStore::{delete,change_id,_delete}, tokio::sync::Mutex::lock (interference hook)
// @timeout 1800
#[kani::proof]
#[kani::unwind(4)]
#[kani::stub(std::fmt::format, fmt_stub)]
fn c13_interleaved_delete_change_id() {
    interleaved_body(3, 5);
}

// @tier quick
// @obligation as c13_interleaved_writes, for load and delete_expired(None) as the operation under test (what load returns - state and remaining ttl - and the count delete_expired reports are part of the outcome that one of the two sequential orders must explain)
// @bounds as c13_load / c13_delete_expired_all (both physical record orders); the other task performs at most one operation
// @functions InMemorySessionStore::{load,delete_expired}, tokio::sync::Mutex::lock (interference hook)
// @timeout 1800
// @mem 40
#[kani::proof]
#[kani::unwind(4)]
#[kani::stub(std::fmt::format, fmt_stub)]
fn c13_interleaved_load_delete_expired() {
    interleaved_body(5, 7);
}

/// Native search for a concrete failing input (see nd.rs); only built when a counterexample has to
/// be made concrete.
#[cfg(test)]
mod native_search {
    use super::*;
    fn reset() {}
    #[test]
    fn c13_load() { nd::search("c13_load", super::c13_load, reset) }
    #[test]
    fn c13_write_ops() { nd::search("c13_write_ops", super::c13_write_ops, reset) }
    #[test]
    fn c13_delete() { nd::search("c13_delete", super::c13_delete, reset) }
    #[test]
    fn c13_change_id() { nd::search("c13_change_id", super::c13_change_id, reset) }
    #[test]
    fn c13_interleaved_writes() { nd::search("c13_interleaved_writes", super::c13_interleaved_writes, reset) }
    #[test]
    fn c13_interleaved_delete_change_id() { nd::search("c13_interleaved_delete_change_id", super::c13_interleaved_delete_change_id, reset) }
    #[test]
    fn c13_interleaved_load_delete_expired() { nd::search("c13_interleaved_load_delete_expired", super::c13_interleaved_load_delete_expired, reset) }
    #[test]
    fn c13_delete_expired_all() { nd::search("c13_delete_expired_all", super::c13_delete_expired_all, reset) }
    #[test]
    fn c13_delete_expired_batch1() { nd::search("c13_delete_expired_batch1", super::c13_delete_expired_batch1, reset) }
    #[test]
    fn c13_delete_expired_batch2() { nd::search("c13_delete_expired_batch2", super::c13_delete_expired_batch2, reset) }
}
