// Source of nondeterminism for the harnesses.
//
// * Under Kani (verification) every function is `kani::any()` / `kani::assume()`: the solver
//   decides the harness over all values.
// * Under `cfg(test)` (only when a counterexample has to be turned into concrete values, i.e.
//   after the solver reported a failed check) the same functions draw from a seeded pseudo-random
//   stream, so the very same harness can be executed natively many times: `search` looks for one
//   concrete input on which the harness fails and prints the harness's trace for it. This is a
//   replay aid - Kani's own concrete playback multiplies the formula size by ten and runs out of
//   memory on the larger harnesses - never the deciding step.
#![allow(dead_code)]

#[cfg(not(test))]
mod imp {
    pub fn any_bool() -> bool {
        kani::any()
    }
    pub fn any_u8() -> u8 {
        kani::any()
    }
    pub fn any_u64() -> u64 {
        kani::any()
    }
    pub fn any_i64() -> i64 {
        kani::any()
    }
    pub fn assume(c: bool) {
        kani::assume(c)
    }
    pub fn trace(_f: impl FnOnce() -> String) {}
}

/// `0..n` / `lo..=hi`: bounded draws (under Kani: any + assume; natively: uniform in the range, so
/// that the native search is not starved by rejected assumptions)
pub fn u8_below(n: u8) -> u8 {
    let v = any_u8();
    #[cfg(test)]
    let v = if imp::searching() { v % n } else { v };
    assume(v < n);
    v
}
pub fn u64_in(lo: u64, hi: u64) -> u64 {
    let v = any_u64();
    #[cfg(test)]
    let v = if imp::searching() { imp::spread(lo, hi) } else { v };
    assume(v >= lo && v <= hi);
    v
}
pub fn i64_in(lo: i64, hi: i64) -> i64 {
    let v = any_i64();
    #[cfg(test)]
    let v = if imp::searching() { lo + imp::spread(0, (hi - lo) as u64) as i64 } else { v };
    assume(v >= lo && v <= hi);
    v
}

#[cfg(test)]
mod imp {
    use std::cell::{Cell, RefCell};
    thread_local! {
        static RNG: Cell<u64> = Cell::new(0x9E3779B97F4A7C15);
        pub static TRACE: RefCell<Vec<String>> = RefCell::new(Vec::new());
    }
    pub struct AssumeFailed;
    pub fn seed(s: u64) {
        RNG.with(|r| r.set(s.wrapping_mul(0x9E3779B97F4A7C15) ^ 0xD1B54A32D192ED03));
        for _ in 0..4 {
            next();
        }
    }
    fn next() -> u64 {
        RNG.with(|r| {
            let mut x = r.get();
            x ^= x << 13;
            x ^= x >> 7;
            x ^= x << 17;
            r.set(x);
            x
        })
    }
    /// Kani's concrete playback of one counterexample: values come from Kani's recorded bytes.
    fn playback() -> bool {
        std::env::var_os("VERIF_TRACE_ECHO").is_some()
    }
    thread_local! { static HINT: Cell<Option<(u64, u64)>> = Cell::new(None); }
    pub fn any_bool() -> bool {
        if playback() { return kani::any(); }
        next() >> 33 & 1 == 1
    }
    /// small values first: the harness bounds are small, uniform bytes would be rejected by `assume`
    pub fn any_u8() -> u8 {
        if playback() { return kani::any(); }
        let x = next() >> 20;
        if x % 8 != 0 { (x >> 8) as u8 % 6 } else { (x >> 8) as u8 }
    }
    pub fn any_u64() -> u64 {
        if playback() { return kani::any(); }
        let x = next() >> 11;
        match x % 8 {
            0 => (x >> 8) % 3,
            1 => 99 + (x >> 8) % 3,
            // wide values: around 2^32, 2^63, 2^64 (where narrowing casts and signed arithmetic wrap)
            2 => match (x >> 8) % 4 {
                0 => (1u64 << 32) + (x >> 12) % 7,
                1 => (1u64 << 32) * (1 + (x >> 12) % 3) + (x >> 16) % 7,
                2 => (1u64 << 63) + (x >> 12) % 5,
                _ => u64::MAX - (x >> 12) % 5,
            },
            _ => (x >> 8) % 1103,
        }
    }
    pub fn any_i64() -> i64 {
        if playback() { return kani::any(); }
        any_u64() as i64
    }
    pub fn assume(c: bool) {
        if playback() { return kani::assume(c); }
        if !c {
            std::panic::panic_any(AssumeFailed);
        }
    }
    pub fn searching() -> bool {
        !playback()
    }
    /// uniform in lo..=hi with the two ends over-represented (boundaries are where the bugs are)
    pub fn spread(lo: u64, hi: u64) -> u64 {
        let x = next() >> 9;
        match x % 10 {
            0 => lo,
            1 => hi,
            _ => lo + (x >> 8) % (hi - lo + 1),
        }
    }
    pub fn trace(f: impl FnOnce() -> String) {
        let line = f();
        // a single played-back run (Kani's concrete playback) echoes its trace directly
        if std::env::var_os("VERIF_TRACE_ECHO").is_some() {
            eprintln!("VTRACE {line}");
        }
        TRACE.with(|t| t.borrow_mut().push(line));
    }

    /// Run `harness` natively on pseudo-random inputs until it fails; print the trace of the failing run.
    pub fn search(name: &str, harness: fn(), reset: fn()) {
        let tries: u64 = std::env::var("VERIF_NATIVE_TRIES").ok().and_then(|s| s.parse().ok()).unwrap_or(300_000);
        let base: u64 = std::env::var("VERIF_SEED").ok().and_then(|s| s.parse().ok()).unwrap_or(0);
        std::panic::set_hook(Box::new(|_| {}));
        let max_finds: u64 = std::env::var("VERIF_NATIVE_FINDS").ok().and_then(|s| s.parse().ok()).unwrap_or(8);
        let mut finds = 0u64;
        let mut ran = 0u64;
        for i in 0..tries {
            seed(base.wrapping_mul(1_000_003).wrapping_add(i));
            TRACE.with(|t| t.borrow_mut().clear());
            reset();
            let r = std::panic::catch_unwind(harness);
            match r {
                Ok(()) => ran += 1,
                Err(e) if e.is::<AssumeFailed>() => {}
                Err(e) => {
                    let msg = e.downcast_ref::<String>().cloned().or_else(|| e.downcast_ref::<&str>().map(|s| s.to_string())).unwrap_or_default();
                    println!("NATIVE-SEARCH-FOUND harness={name} try={i} completed_runs={ran}");
                    println!("NATIVE-SEARCH-PANIC {}", msg.replace('\n', " "));
                    TRACE.with(|t| {
                        for l in t.borrow().iter() {
                            println!("VTRACE {l}");
                        }
                    });
                    println!("NATIVE-SEARCH-END");
                    finds += 1;
                    if finds >= max_finds {
                        return;
                    }
                }
            }
        }
        if finds == 0 {
            println!("NATIVE-SEARCH-NONE harness={name} tries={tries} completed_runs={ran}");
        }
    }
}

pub use imp::*;
