// ------------------------------------------------------------------------------------------------
// Verification harnesses for C11 (session state carries over exactly) and C12 (session cookie).
//
// This file is compiled as a child module of the *scratch copy* of
// runtime/sessions/pavex_session/src/session_.rs (so it sees the private representation of
// `Session`); it is never part of /repo.
//
// Method: refinement (forward simulation), one inductive step per query.
//   * the in-memory state of `Session` is conjured symbolically (every combination of id kind,
//     server-state kind, client-state kind, invalidation flag, map contents, store contents and
//     configuration) and constrained only by the representation invariant INV below;
//   * one real operation runs on it; the same operation runs on the reference model `Model`,
//     written from the documentation (lazy loading, missing-state policy, creation policy);
//   * afterwards: the results agree, the abstraction of the new in-memory state equals the new
//     model state, and INV holds again (closure) - so histories of any length follow by induction;
//   * `sync`/`finalize` are checked against "what the next request would observe": the content
//     of the store under the id the cookie carries, the absence of the old id, the cookie itself;
//   * `Session::new` on the cookie written by `finalize` re-establishes abstraction and INV.
// ------------------------------------------------------------------------------------------------
#![allow(dead_code, unused_imports, clippy::all)]

use super::*;
#[path = "nd.rs"]
pub(super) mod nd;
use crate::config::{
    MissingServerState, ServerStateCreation, SessionCookieConfig, SessionCookieKind,
    SessionStateConfig, TtlExtensionThreshold, TtlExtensionTrigger,
};
use crate::store::errors::*;
use crate::store::{SessionRecord, SessionRecordRef, SessionStorageBackend};
use std::cell::RefCell;
use std::num::NonZeroUsize;
use std::time::Duration;

pub(super) const KA: &str = "a";
pub(super) const KB: &str = "b";
/// Model-side encoding of "what is filed under a key": 0 = nothing, 1 = null, 2 = false, 3 = true.
/// (Plain integers keep every model-side comparison a one-word comparison for the solver.)
pub(super) type Code = u8;
pub(super) const NONE: Code = 0;
pub(super) fn enc(v: Option<Value>) -> Code {
    match v {
        None => 0,
        Some(Value::Null) => 1,
        Some(Value::Bool(false)) => 2,
        Some(Value::Bool(true)) => 3,
        // numbers are outside the bound of the harness; 4 never equals a model code
        Some(Value::Number(_)) => 4,
    }
}
pub(super) fn dec(c: Code) -> Option<Value> {
    match c {
        0 => None,
        1 => Some(Value::Null),
        2 => Some(Value::Bool(false)),
        _ => Some(Value::Bool(true)),
    }
}
/// Model map over the two keys of the bound: index 0 = "a", index 1 = "b".
pub(super) type VMap = [Code; 2];
pub(super) const EMPTY: VMap = [NONE, NONE];

pub(super) fn fmt_stub(_a: std::fmt::Arguments<'_>) -> String {
    String::new()
}

// ---------------------------------------------------------------------------------------------
// Tracing for native replay. `cfg(test)` is only set when a counterexample is played back
// natively (`cargo kani playback` builds the crate's test harness); during verification these
// functions have empty bodies and cost nothing.
// ---------------------------------------------------------------------------------------------
#[cfg(test)]
pub(super) fn vtrace(line: String) {
    nd::trace(|| line);
}
#[cfg(not(test))]
pub(super) fn vtrace_world(_w: &World) {}
#[cfg(not(test))]
pub(super) fn vtrace_op(_name: &str, _key: usize, _v: Code) {}
#[cfg(test)]
fn jv(v: &Code) -> String {
    match dec(*v) {
        None => "null".to_string(),
        Some(Value::Null) => "\"nil\"".to_string(),
        Some(Value::Bool(b)) => format!("{b}"),
        Some(Value::Number(n)) => format!("{n}"),
    }
}
#[cfg(test)]
fn jm(m: &VMap) -> String {
    format!("[{},{}]", jv(&m[0]), jv(&m[1]))
}
#[cfg(test)]
pub(super) fn vtrace_world(w: &World) {
    let sh = &w.sh;
    let rec = |r: &Rec| if r.present { format!("{{\"state\":{},\"ttl\":{}}}", jm(&r.state), r.ttl) } else { "null".to_string() };
    vtrace(format!(
        "{{\"kind\":\"world\",\"idk\":{},\"ssk\":{},\"smap\":{},\"rem_ttl\":{},\"client_updated\":{},\"cmap\":{},\"invalidated\":{},\"rec_o\":{},\"rec_n\":{},\"rec_x\":{},\"extend_on_loads\":{},\"threshold\":{},\"never_skip\":{},\"allow\":{},\"cookie_kind\":\"{}\"}}",
        sh.idk as u8, sh.ssk as u8, jm(&sh.smap), sh.rem_ttl, sh.client_updated, jm(&sh.cmap), sh.invalidated,
        rec(&w.db0[0]), rec(&w.db0[1]), rec(&w.db0[2]),
        w.cfg.state.extend_ttl == TtlExtensionTrigger::OnStateLoadsAndChanges,
        w.cfg.state.ttl_extension_threshold.is_some(),
        w.cfg.state.server_state_creation == ServerStateCreation::NeverSkip,
        w.allow,
        if w.cfg.cookie.kind == SessionCookieKind::Persistent { "persistent" } else { "session" },
    ));
}
#[cfg(test)]
pub(super) fn vtrace_op(name: &str, key: usize, v: Code) {
    vtrace(format!("{{\"kind\":\"op\",\"op\":\"{name}\",\"key\":\"{}\",\"value\":{}}}", if key == 0 { "a" } else { "b" }, jv(&v)));
}

/// a present value (code 1..=3)
pub(super) fn any_value() -> Code {
    1 + nd::u8_below(3)
}
/// a value or nothing (code 0..=3)
pub(super) fn any_opt_value() -> Code {
    nd::u8_below(4)
}
pub(super) fn any_vmap() -> VMap {
    [any_opt_value(), any_opt_value()]
}
pub(super) fn any_key() -> (usize, &'static str) {
    if nd::any_bool() { (0, KA) } else { (1, KB) }
}
pub(super) fn to_state(m: &VMap) -> State {
    // "a" may sit in either slot: the slot order of a real map is arbitrary too
    let ea = dec(m[0]).map(|v| (Cow::Borrowed(KA), v));
    let eb = dec(m[1]).map(|v| (Cow::Borrowed(KB), v));
    if nd::any_bool() { State::from_slots([ea, eb]) } else { State::from_slots([eb, ea]) }
}
/// Read a map back. Keys outside the bound ({"a","b"}) or duplicates make the result `None`-free
/// garbage on purpose: `of_state` is only meaningful together with `state_ok`.
pub(super) fn of_state(s: &State) -> VMap {
    let mut m = EMPTY;
    let e = s.entries();
    if let Some((k, v)) = e[0] {
        let b = k.as_bytes();
        if b.len() == 1 && b[0] == b'a' { m[0] = enc(Some(*v)) } else if b.len() == 1 && b[0] == b'b' { m[1] = enc(Some(*v)) }
    }
    if let Some((k, v)) = e[1] {
        let b = k.as_bytes();
        if b.len() == 1 && b[0] == b'a' { m[0] = enc(Some(*v)) } else if b.len() == 1 && b[0] == b'b' { m[1] = enc(Some(*v)) }
    }
    m
}
/// The map holds only keys of the bound, each at most once.
pub(super) fn state_ok(s: &State) -> bool {
    let e = s.entries();
    let idx = |k: &Cow<'static, str>| { let b = k.as_bytes(); if b.len() == 1 && b[0] == b'a' { 0 } else if b.len() == 1 && b[0] == b'b' { 1 } else { 2 } };
    match (e[0], e[1]) {
        (Some((k0, _)), Some((k1, _))) => idx(k0) < 2 && idx(k1) < 2 && idx(k0) != idx(k1),
        (Some((k0, _)), None) => idx(k0) < 2,
        (None, Some((k1, _))) => idx(k1) < 2,
        (None, None) => true,
    }
}
pub(super) fn vmap_is_empty(m: &VMap) -> bool {
    m[0] == NONE && m[1] == NONE
}

// ---------------------------------------------------------------------------------------------
// Storage backend of the harness: four directly indexed slots, plain map semantics.
// ---------------------------------------------------------------------------------------------
pub(super) const ID_O: u128 = 1; // the id the request came in with (or the id of a brand-new session)
pub(super) const ID_N: u128 = 2; // the id chosen by an earlier cycle_id() (state ToBeRenamed)
pub(super) const ID_X: u128 = 3; // an unrelated session
pub(super) const ID_F: u128 = 1001; // first id handed out by the uuid shim: what cycle_id() picks

pub(super) fn sid(n: u128) -> SessionId {
    // SessionId is a transparent wrapper around the (shim) Uuid.
    unsafe { std::mem::transmute::<uuid::Uuid, SessionId>(uuid::Uuid::from_u128(n)) }
}
pub(super) fn slot_of(id: &SessionId) -> usize {
    let v = id.inner().as_u128();
    if v == ID_O {
        0
    } else if v == ID_N {
        1
    } else if v == ID_X {
        2
    } else if v == ID_F {
        3
    } else {
        // no other id exists within the bound of the harness
        nd::assume(false);
        0
    }
}

pub(super) fn slot_n(v: u128) -> usize {
    if v == ID_O { 0 } else if v == ID_N { 1 } else if v == ID_X { 2 } else { 3 }
}

#[derive(Clone, Copy, PartialEq, Eq)]
pub(super) struct Rec {
    pub present: bool,
    pub state: VMap,
    pub ttl: u64,
}
/// loop-free comparison of the whole store (a derived `==` on the array is a 4-iteration loop)
pub(super) fn recs_eq(a: &[Rec; 4], b: &[Rec; 4]) -> bool {
    a[0] == b[0] && a[1] == b[1] && a[2] == b[2] && a[3] == b[3]
}
pub(super) const NOREC: Rec = Rec { present: false, state: EMPTY, ttl: 0 };

pub(super) struct Db {
    pub recs: [Rec; 4],
    pub calls: u8,
    /// the backend answers "unknown id" to the next call that targets an existing record and
    /// drops it: the documented "expired while we were processing" race. Off unless a harness arms it.
    pub expire_o_now: bool,
}
pub(super) struct Mem(pub &'static RefCell<Db>);
unsafe impl Send for Mem {}
unsafe impl Sync for Mem {}
impl std::fmt::Debug for Mem {
    fn fmt(&self, _f: &mut std::fmt::Formatter<'_>) -> std::fmt::Result {
        Ok(())
    }
}
impl Mem {
    fn tick(&self) {
        let mut g = self.0.borrow_mut();
        g.calls = g.calls.wrapping_add(1);
        if g.expire_o_now {
            g.expire_o_now = false;
            g.recs[0] = NOREC;
        }
    }
}
impl SessionStorageBackend for Mem {
    fn create(&self, id: &SessionId, record: SessionRecordRef<'_>) -> Result<(), CreateError> {
        self.tick();
        let mut g = self.0.borrow_mut();
        let i = slot_of(id);
        if g.recs[i].present {
            return Err(CreateError::DuplicateId(DuplicateIdError { id: *id }));
        }
        g.recs[i] = Rec { present: true, state: of_state(&record.state), ttl: record.ttl.as_secs() };
        std::mem::forget(record);
        Ok(())
    }
    fn update(&self, id: &SessionId, record: SessionRecordRef<'_>) -> Result<(), UpdateError> {
        self.tick();
        let mut g = self.0.borrow_mut();
        let i = slot_of(id);
        if !g.recs[i].present {
            std::mem::forget(record);
            return Err(UnknownIdError { id: *id }.into());
        }
        g.recs[i] = Rec { present: true, state: of_state(&record.state), ttl: record.ttl.as_secs() };
        std::mem::forget(record);
        Ok(())
    }
    fn update_ttl(&self, id: &SessionId, ttl: Duration) -> Result<(), UpdateTtlError> {
        self.tick();
        let mut g = self.0.borrow_mut();
        let i = slot_of(id);
        if !g.recs[i].present {
            return Err(UnknownIdError { id: *id }.into());
        }
        g.recs[i].ttl = ttl.as_secs();
        Ok(())
    }
    fn load(&self, id: &SessionId) -> Result<Option<SessionRecord>, LoadError> {
        self.tick();
        let g = self.0.borrow();
        let i = slot_of(id);
        if !g.recs[i].present {
            return Ok(None);
        }
        Ok(Some(SessionRecord { state: to_state(&g.recs[i].state), ttl: Duration::from_secs(g.recs[i].ttl) }))
    }
    fn delete(&self, id: &SessionId) -> Result<(), DeleteError> {
        self.tick();
        let mut g = self.0.borrow_mut();
        let i = slot_of(id);
        if !g.recs[i].present {
            return Err(UnknownIdError { id: *id }.into());
        }
        g.recs[i] = NOREC;
        Ok(())
    }
    fn change_id(&self, old: &SessionId, new: &SessionId) -> Result<(), ChangeIdError> {
        self.tick();
        let mut g = self.0.borrow_mut();
        let (i, j) = (slot_of(old), slot_of(new));
        if g.recs[j].present {
            return Err(DuplicateIdError { id: *new }.into());
        }
        if !g.recs[i].present {
            return Err(UnknownIdError { id: *old }.into());
        }
        g.recs[j] = g.recs[i];
        g.recs[i] = NOREC;
        Ok(())
    }
    fn delete_expired(&self, _b: Option<NonZeroUsize>) -> Result<usize, DeleteExpiredError> {
        Ok(0)
    }
}

// ---------------------------------------------------------------------------------------------
// Symbolic configuration
// ---------------------------------------------------------------------------------------------
pub(super) const FRESH_TTL: u64 = 100;

pub(super) fn any_state_config() -> SessionStateConfig {
    let mut c = SessionStateConfig::default();
    c.ttl = Duration::from_secs(FRESH_TTL);
    c.extend_ttl = if nd::any_bool() { TtlExtensionTrigger::OnStateLoadsAndChanges } else { TtlExtensionTrigger::OnStateChanges };
    // the threshold is either absent or the documented default 0.8 (a symbolic f32 would turn
    // Duration::mul_f32 into a floating-point bit-blasting problem; stated bound)
    c.ttl_extension_threshold = if nd::any_bool() { None } else { Some(TtlExtensionThreshold::new(0.8).unwrap()) };
    c.server_state_creation = if nd::any_bool() { ServerStateCreation::NeverSkip } else { ServerStateCreation::SkipIfEmpty };
    c.missing_server_state = if nd::any_bool() { MissingServerState::Allow } else { MissingServerState::Reject };
    c
}

/// The configuration lives in a static slot (one per harness run), not in a `Box`: a struct with
/// symbolic `Option<String>` fields moved into a heap allocation is mis-modelled by Kani 0.68 /
/// CBMC 6.11 (a later `String::clone` of a sibling field reads a wrong byte; reproduction in
/// /verif/notes/kani_repros_strings.rs).
pub(super) fn leak_config(state: SessionStateConfig, cookie: SessionCookieConfig) -> &'static SessionConfig {
    static mut SLOT: std::mem::MaybeUninit<SessionConfig> = std::mem::MaybeUninit::uninit();
    let mut c = SessionConfig::new();
    c.state = state;
    c.cookie = cookie;
    unsafe {
        let p = &raw mut SLOT;
        (*p).write(c);
        (*p).assume_init_ref()
    }
}

// ---------------------------------------------------------------------------------------------
// Symbolic pre-state + representation invariant
// ---------------------------------------------------------------------------------------------
#[derive(Clone, Copy, PartialEq, Eq)]
pub(super) enum IdK {
    Existing,
    ToBeRenamed,
    NewlyGenerated,
}
#[derive(Clone, Copy, PartialEq, Eq)]
pub(super) enum SsK {
    NotLoaded,
    Unchanged,
    DoesNotExist,
    MarkedForDeletion,
    Changed,
}
/// Everything there is to know about a `Session` value (besides store and config).
#[derive(Clone, Copy)]
pub(super) struct Shape {
    pub idk: IdK,
    pub ssk: SsK,
    pub smap: VMap,
    pub rem_ttl: u64,
    pub client_updated: bool,
    pub cmap: VMap,
    pub invalidated: bool,
    /// id the record is filed under in the store today (what a lazy load reads)
    pub old: u128,
    /// id the cookie will carry / the record will live under after sync
    pub cur: u128,
}

pub(super) fn any_shape() -> Shape {
    any_shape_k(None)
}
/// `only`: restrict the id kind (used to split one obligation into three smaller queries).
pub(super) fn any_shape_k(only: Option<IdK>) -> Shape {
    let s: u8 = nd::u8_below(5);
    let idk = match only {
        Some(k) => k,
        None => {
            let i: u8 = nd::u8_below(3);
            match i {
                0 => IdK::Existing,
                1 => IdK::ToBeRenamed,
                _ => IdK::NewlyGenerated,
            }
        }
    };
    let ssk = match s {
        0 => SsK::NotLoaded,
        1 => SsK::Unchanged,
        2 => SsK::DoesNotExist,
        3 => SsK::MarkedForDeletion,
        _ => SsK::Changed,
    };
    let rem_ttl: u64 = nd::u64_in(0, FRESH_TTL);
    Shape {
        idk,
        ssk,
        smap: if ssk == SsK::Unchanged || ssk == SsK::Changed { any_vmap() } else { EMPTY },
        rem_ttl,
        client_updated: nd::any_bool(),
        cmap: any_vmap(),
        invalidated: nd::any_bool(),
        old: ID_O,
        cur: if idk == IdK::ToBeRenamed { ID_N } else { ID_O },
    }
}

pub(super) fn any_db() -> &'static RefCell<Db> {
    let mut recs = [NOREC; 4];
    let mut i = 0;
    while i < 3 {
        if nd::any_bool() {
            let ttl: u64 = nd::u64_in(0, FRESH_TTL);
            recs[i] = Rec { present: true, state: any_vmap(), ttl };
        }
        i += 1;
    }
    Box::leak(Box::new(RefCell::new(Db { recs, calls: 0, expire_o_now: false })))
}

/// The representation invariant linking the in-memory state and the store. Every clause is a
/// fact the implementation relies on (quoted from its own comments where there is one).
pub(super) fn inv(sh: &Shape, db: &Db) -> bool {
    // only ids of the bound; X is somebody else's
    if !(sh.old == ID_O || sh.old == ID_N || sh.old == ID_F) || !(sh.cur == ID_O || sh.cur == ID_N || sh.cur == ID_F) {
        return false;
    }
    let o = &db.recs[slot_n(sh.old)];
    // "If the session has been invalidated, server_state MUST be set to MarkedForDeletion."
    if sh.invalidated && sh.ssk != SsK::MarkedForDeletion {
        return false;
    }
    match sh.idk {
        IdK::Existing => {
            if sh.old != sh.cur {
                return false;
            }
        }
        IdK::ToBeRenamed => {
            // "old is always different from new"; ids handed out by cycle_id are fresh: nothing is
            // stored under them before sync
            if sh.old == sh.cur || db.recs[slot_n(sh.cur)].present {
                return false;
            }
        }
        IdK::NewlyGenerated => {
            if sh.old != sh.cur {
                return false;
            }
            // "A newly generated session cannot have a 'NotLoaded' server state."; nothing is stored
            // under its id yet (once something is, the id is recorded as Existing)
            if sh.ssk == SsK::NotLoaded || sh.ssk == SsK::Unchanged || o.present {
                return false;
            }
            // a brand-new session starts with no client-side values; any write flags the state as updated
            if !sh.client_updated && !vmap_is_empty(&sh.cmap) {
                return false;
            }
        }
    }
    match sh.ssk {
        // an unchanged state is a faithful copy of the record it was loaded from
        // (the remaining ttl it remembers may be stale after a ttl refresh, never an over-estimate)
        SsK::Unchanged => o.present && o.state == sh.smap && o.ttl >= sh.rem_ttl,
        // "does not exist" was learnt from the store (or established by sync)
        SsK::DoesNotExist => !o.present,
        _ => true,
    }
}

/// `assert!(inv(..))` with one message per clause (for readable counterexamples).
pub(super) fn assert_inv(sh: &Shape, db: &Db) {
    let known_id = |v: u128| v == ID_O || v == ID_N || v == ID_F;
    assert!(known_id(sh.old) && known_id(sh.cur), "INV: the session carries an id nobody handed out");
    let o = &db.recs[slot_n(sh.old)];
    assert!(!sh.invalidated || sh.ssk == SsK::MarkedForDeletion, "INV: an invalidated session must have its server state marked for deletion");
    match sh.idk {
        IdK::Existing => assert!(sh.old == sh.cur),
        IdK::ToBeRenamed => {
            assert!(sh.old != sh.cur, "INV: renaming to the same id");
            assert!(!db.recs[slot_n(sh.cur)].present, "INV: the fresh id of a pending rename already has a record");
        }
        IdK::NewlyGenerated => {
            assert!(sh.old == sh.cur);
            assert!(sh.ssk != SsK::NotLoaded, "INV: a newly generated session cannot have a not-loaded server state");
            assert!(sh.ssk != SsK::Unchanged && !o.present, "INV: a record exists for a session still flagged as newly generated (the next sync would create it again)");
            assert!(sh.client_updated || vmap_is_empty(&sh.cmap), "INV: client-side values on a new session not flagged as updated");
        }
    }
    match sh.ssk {
        SsK::Unchanged => {
            assert!(o.present, "INV: state flagged unchanged but there is no record to be a copy of (sync would write nothing)");
            assert!(o.state == sh.smap, "INV: state flagged unchanged but it differs from the stored record (sync would not persist the difference)");
            assert!(o.ttl >= sh.rem_ttl, "INV: an unchanged state remembers more remaining ttl than its record has");
        }
        SsK::DoesNotExist => assert!(!o.present, "INV: state says 'no record' but the store has one (sync would try to create a duplicate)"),
        _ => {}
    }
}

pub(super) fn build(sh: &Shape, store: &'static SessionStore, cfg: &'static SessionConfig) -> Session<'static> {
    let id = match sh.idk {
        IdK::Existing => CurrentSessionId::Existing(sid(ID_O)),
        IdK::ToBeRenamed => CurrentSessionId::ToBeRenamed { old: sid(ID_O), new: sid(ID_N) },
        IdK::NewlyGenerated => CurrentSessionId::NewlyGenerated(sid(ID_O)),
    };
    let server_state = match sh.ssk {
        SsK::NotLoaded => None,
        SsK::Unchanged => Some(ServerState::Unchanged { state: to_state(&sh.smap), ttl: Duration::from_secs(sh.rem_ttl) }),
        SsK::DoesNotExist => Some(ServerState::DoesNotExist),
        SsK::MarkedForDeletion => Some(ServerState::MarkedForDeletion),
        SsK::Changed => Some(ServerState::Changed { state: to_state(&sh.smap) }),
    };
    let client_state = if sh.client_updated {
        ClientState::Updated { state: to_state(&sh.cmap) }
    } else {
        ClientState::Unchanged { state: to_state(&sh.cmap) }
    };
    let invalidated = InvalidationFlag::new();
    if sh.invalidated {
        invalidated.invalidate();
    }
    Session {
        id,
        server_state: new_cell_with(server_state),
        client_state,
        invalidated,
        store,
        config: cfg,
        _unsend: Default::default(),
    }
}

/// Read back the shape of a `Session` (abstraction function, part 1).
pub(super) fn shape_of(s: &Session<'_>) -> Shape {
    let (idk, old, cur) = match &s.id {
        CurrentSessionId::Existing(id) => (IdK::Existing, id.inner().as_u128(), id.inner().as_u128()),
        CurrentSessionId::ToBeRenamed { old, new } => (IdK::ToBeRenamed, old.inner().as_u128(), new.inner().as_u128()),
        CurrentSessionId::NewlyGenerated(id) => (IdK::NewlyGenerated, id.inner().as_u128(), id.inner().as_u128()),
    };
    let (ssk, smap, rem_ttl) = match s.server_state.get() {
        None => (SsK::NotLoaded, EMPTY, 0),
        Some(ServerState::Unchanged { state, ttl }) => (SsK::Unchanged, of_state(state), ttl.as_secs()),
        Some(ServerState::DoesNotExist) => (SsK::DoesNotExist, EMPTY, 0),
        Some(ServerState::MarkedForDeletion) => (SsK::MarkedForDeletion, EMPTY, 0),
        Some(ServerState::Changed { state }) => (SsK::Changed, of_state(state), 0),
    };
    match s.server_state.get() {
        Some(ServerState::Unchanged { state, .. }) | Some(ServerState::Changed { state }) => assert!(state_ok(state), "the server-side map holds a duplicated or foreign key"),
        _ => {}
    }
    match &s.client_state {
        ClientState::Unchanged { state } | ClientState::Updated { state } => assert!(state_ok(state), "the client-side map holds a duplicated or foreign key"),
    }
    let (client_updated, cmap) = match &s.client_state {
        ClientState::Unchanged { state } => (false, of_state(state)),
        ClientState::Updated { state } => (true, of_state(state)),
    };
    Shape { idk, ssk, smap, rem_ttl, client_updated, cmap, invalidated: s.invalidated.is_invalidated(), old, cur }
}

// ---------------------------------------------------------------------------------------------
// Reference model (written from the documentation of Session / SessionConfig)
// ---------------------------------------------------------------------------------------------
#[derive(Clone, Copy, PartialEq, Eq)]
pub(super) enum View {
    /// the server-side state has not been looked at in this request ("loaded lazily")
    NotLooked,
    /// looked at: there is no record
    Absent,
    /// looked at (or written): these are the values
    Present(VMap),
    /// `delete()` / `invalidate()`: the record is to be removed
    Deleted,
}
#[derive(Clone, Copy, PartialEq, Eq)]
pub(super) struct Model {
    /// slot of the id the record is filed under today (what a lazy load reads)
    pub rec_slot: usize,
    /// the store/cookie know this session already (the request came with a cookie, or a sync
    /// already persisted it)
    pub known: bool,
    /// cycle_id() was called on a known session and not yet synchronised
    pub cycled: bool,
    pub client: VMap,
    pub view: View,
    pub invalidated: bool,
}

pub(super) fn abs(sh: &Shape) -> Model {
    Model {
        rec_slot: slot_n(sh.old),
        known: sh.idk != IdK::NewlyGenerated,
        cycled: sh.idk == IdK::ToBeRenamed,
        client: sh.cmap,
        view: match sh.ssk {
            SsK::NotLoaded => View::NotLooked,
            SsK::Unchanged | SsK::Changed => View::Present(sh.smap),
            SsK::DoesNotExist => View::Absent,
            SsK::MarkedForDeletion => View::Deleted,
        },
        invalidated: sh.invalidated,
    }
}

impl Model {
    /// "The server state is loaded lazily": the first server-side access of a request reads the
    /// record filed under the id the request came in with.
    pub fn look(&mut self, db: &Db, allow_missing: bool) {
        if self.view == View::NotLooked {
            let r = &db.recs[self.rec_slot];
            if r.present {
                self.view = View::Present(r.state);
            } else if allow_missing {
                // MissingServerState::Allow: "The server state will be treated as empty"
                self.view = View::Absent;
            } else {
                // MissingServerState::Reject: "The session will be marked as invalidated."
                self.invalidated = true;
                self.view = View::Deleted;
            }
        }
    }
    pub fn server_get(&mut self, db: &Db, allow: bool, k: usize) -> Code {
        self.look(db, allow);
        match self.view {
            View::Present(m) => m[k],
            _ => NONE,
        }
    }
    pub fn server_is_empty(&mut self, db: &Db, allow: bool) -> bool {
        self.look(db, allow);
        match self.view {
            View::Present(m) => vmap_is_empty(&m),
            _ => true,
        }
    }
    pub fn server_insert(&mut self, db: &Db, allow: bool, k: usize, v: Code) -> Code {
        self.look(db, allow);
        match self.view {
            // a record that is being deleted takes no more values
            View::Deleted => NONE,
            View::Absent | View::NotLooked => {
                let mut m = EMPTY;
                m[k] = v;
                self.view = View::Present(m);
                NONE
            }
            View::Present(mut m) => {
                let old = m[k];
                m[k] = v;
                self.view = View::Present(m);
                old
            }
        }
    }
    pub fn server_remove(&mut self, db: &Db, allow: bool, k: usize) -> Code {
        self.look(db, allow);
        match self.view {
            View::Present(mut m) => {
                let old = m[k];
                m[k] = NONE;
                self.view = View::Present(m);
                old
            }
            _ => NONE,
        }
    }
    pub fn server_clear(&mut self, db: &Db, allow: bool) {
        self.look(db, allow);
        if let View::Present(_) = self.view {
            self.view = View::Present(EMPTY);
        }
    }
    pub fn delete(&mut self) {
        self.view = View::Deleted;
    }
    pub fn cycle_id(&mut self) {
        if self.known {
            self.cycled = true;
        }
    }
    pub fn invalidate(&mut self) {
        self.invalidated = true;
        self.view = View::Deleted;
    }
    pub fn client_get(&self, k: usize) -> Code {
        if self.invalidated { NONE } else { self.client[k] }
    }
    pub fn client_is_empty(&self) -> bool {
        self.invalidated || vmap_is_empty(&self.client)
    }
    pub fn client_insert(&mut self, k: usize, v: Code) -> Code {
        if self.invalidated {
            return NONE;
        }
        let old = self.client[k];
        self.client[k] = v;
        old
    }
    pub fn client_remove(&mut self, k: usize) -> Code {
        if self.invalidated {
            return NONE;
        }
        let old = self.client[k];
        self.client[k] = NONE;
        old
    }
    pub fn client_clear(&mut self) {
        if !self.invalidated {
            self.client = EMPTY;
        }
    }
}

// ---------------------------------------------------------------------------------------------
// Harness scaffolding
// ---------------------------------------------------------------------------------------------
pub(super) struct World {
    /// the record under the old id vanished at the first store call of sync ("expired while we
    /// were processing"); `db0` already reflects that
    pub raced: bool,
    pub sh: Shape,
    pub db: &'static RefCell<Db>,
    pub store: &'static SessionStore,
    pub cfg: &'static SessionConfig,
    pub allow: bool,
    pub model: Model,
    pub db0: [Rec; 4],
}

/// An arbitrary reachable-or-not state satisfying INV, with arbitrary store and configuration.
pub(super) fn any_world(cookie: SessionCookieConfig) -> World {
    any_world_k(cookie, None)
}
pub(super) fn any_world_k(cookie: SessionCookieConfig, only: Option<IdK>) -> World {
    let sh = any_shape_k(only);
    let db = any_db();
    nd::assume(inv(&sh, &db.borrow()));
    let cfg = leak_config(any_state_config(), cookie);
    let store: &'static SessionStore = Box::leak(Box::new(SessionStore::new(Mem(db))));
    let allow = cfg.state.missing_server_state == MissingServerState::Allow;
    let db0 = db.borrow().recs;
    let w = World { raced: false, sh, db, store, cfg, allow, model: abs(&sh), db0 };
    vtrace_world(&w);
    w
}

/// After an in-request operation: abstraction of the new state == new model state, INV again,
/// and the store was not written to (in-request operations only ever read it).
pub(super) fn check_step(w: &World, s: &Session<'_>, m: &Model) {
    let sh2 = shape_of(s);
    let db = w.db.borrow();
    let a = abs(&sh2);
    assert!(a.client == m.client, "client-side values differ from the reference model after the operation");
    assert!(a.view == m.view, "server-side view differs from the reference model after the operation");
    assert!(a.invalidated == m.invalidated, "invalidation flag differs from the reference model after the operation");
    assert!(a.known == m.known && a.cycled == m.cycled, "session identity bookkeeping differs from the reference model");
    assert_inv(&sh2, &db);
    assert!(recs_eq(&db.recs, &w.db0), "an in-request operation wrote to the store");
    // the id the record will end up under only ever changes through cycle_id
    assert!(sh2.cur == w.sh.cur && sh2.old == w.sh.old && sh2.idk == w.sh.idk, "the session id changed behind the user's back");
}

/// The default cookie configuration, with either cookie kind: the kind decides whether the cookie gets
/// a Max-Age and must not decide anything else (what is stored, when the ttl is refreshed).
pub(super) fn default_cookie() -> SessionCookieConfig {
    let mut c = SessionCookieConfig::default();
    c.kind = if nd::any_bool() { SessionCookieKind::Persistent } else { SessionCookieKind::Session };
    c
}

// =============================================================================================
// In-request operations (S1)
// =============================================================================================

// @tier quick
// @obligation server get_raw / is_empty from every INV state, store and config: result == model (lazy load, missing-state policy), new state refines the model, INV preserved, store not written
// @bounds keys {a,b}; values {null,false,true}; 3 id kinds x 5 server-state kinds x 2 client kinds x invalidated; store: 3 records arbitrary; config: 2x2x2x2
// @functions Session::get_raw, Session::is_empty, force_load_ref, force_load, SessionStore::load
#[kani::proof]
#[kani::unwind(4)]
#[kani::stub(std::fmt::format, fmt_stub)]
fn c11_step_server_get() {
    let w = any_world(default_cookie());
    let s = build(&w.sh, w.store, w.cfg);
    let mut m = w.model;
    let (ki, k) = any_key();
    if nd::any_bool() {
        vtrace_op("server_get", ki, NONE);
        let got = s.get_raw(k).map(|o| enc(o.copied()));
        let want = m.server_get(&w.db.borrow(), w.allow, ki);
        assert!(matches!(got, Ok(g) if g == want), "get_raw returned a value other than the one the session holds");
    } else {
        vtrace_op("server_is_empty", ki, NONE);
        let got = s.is_empty();
        let want = m.server_is_empty(&w.db.borrow(), w.allow);
        assert!(matches!(got, Ok(g) if g == want), "is_empty disagrees with the reference model");
    }
    check_step(&w, &s, &m);
    kani::cover!(w.sh.ssk == SsK::NotLoaded && m.invalidated, "lazy load rejected a missing record");
    kani::cover!(w.sh.ssk == SsK::NotLoaded && matches!(m.view, View::Present(_)), "lazy load found a record");
    std::mem::forget(s);
}

// @tier quick
// @obligation server insert_raw from every INV state: returned old value == model, new state refines the model, INV preserved (in particular: a modified state is no longer flagged as a faithful copy of the record)
// @bounds as c11_step_server_get; key and value symbolic
// @functions Session::insert_raw, force_load_mut, force_load
#[kani::proof]
#[kani::unwind(4)]
#[kani::stub(std::fmt::format, fmt_stub)]
fn c11_step_server_insert() {
    let w = any_world(default_cookie());
    let mut s = build(&w.sh, w.store, w.cfg);
    let mut m = w.model;
    let (ki, k) = any_key();
    let v = any_value();
    vtrace_op("server_insert", ki, v);
    let got = s.insert_raw(k, dec(v).unwrap()).map(enc);
    let want = m.server_insert(&w.db.borrow(), w.allow, ki, v);
    assert!(matches!(got, Ok(g) if g == want), "insert_raw returned the wrong previous value");
    check_step(&w, &s, &m);
    kani::cover!(w.sh.ssk == SsK::Unchanged && want != NONE, "overwrote a loaded value");
    kani::cover!(w.sh.ssk == SsK::DoesNotExist, "first value of a missing record");
    std::mem::forget(s);
}

// @tier quick
// @obligation server remove_raw from every INV state: returned value == model, new state refines the model, INV preserved (a removal from a loaded state must not leave it flagged unchanged)
// @bounds as c11_step_server_get; key symbolic
// @functions Session::remove_raw, force_load_mut, force_load
#[kani::proof]
#[kani::unwind(4)]
#[kani::stub(std::fmt::format, fmt_stub)]
fn c11_step_server_remove() {
    let w = any_world(default_cookie());
    let mut s = build(&w.sh, w.store, w.cfg);
    let mut m = w.model;
    let (ki, k) = any_key();
    vtrace_op("server_remove", ki, NONE);
    let got = s.remove_raw(k).map(enc);
    let want = m.server_remove(&w.db.borrow(), w.allow, ki);
    assert!(matches!(got, Ok(g) if g == want), "remove_raw returned the wrong value");
    check_step(&w, &s, &m);
    kani::cover!(w.sh.ssk == SsK::Unchanged && want != NONE, "removed a key from a loaded state");
    kani::cover!(w.sh.ssk == SsK::NotLoaded && want != NONE, "removed a key from a lazily loaded state");
    std::mem::forget(s);
}

// @tier quick
// @obligation server clear / delete / invalidate / cycle_id / force_load from every INV state: new state refines the model, INV preserved, store not written
// @bounds as c11_step_server_get; operation chosen symbolically among 5
// @functions Session::clear, Session::delete, Session::invalidate, Session::cycle_id, Session::force_load
#[kani::proof]
#[kani::unwind(4)]
#[kani::stub(std::fmt::format, fmt_stub)]
fn c11_step_server_lifecycle() {
    let w = any_world(default_cookie());
    let mut s = build(&w.sh, w.store, w.cfg);
    let mut m = w.model;
    let op: u8 = nd::u8_below(5);
    vtrace_op(["server_clear", "delete", "invalidate", "cycle_id", "force_load"][op as usize], 0, NONE);
    match op {
        0 => {
            assert!(s.clear().is_ok(), "clear failed");
            m.server_clear(&w.db.borrow(), w.allow);
        }
        1 => {
            s.delete();
            m.delete();
        }
        2 => {
            s.invalidate();
            m.invalidate();
            assert!(s.is_invalidated());
        }
        3 => {
            s.cycle_id();
            m.cycle_id();
            let sh2 = shape_of(&s);
            // the new id is the fresh one; the old one is remembered for the rename
            assert!(!m.cycled || (sh2.idk == IdK::ToBeRenamed && sh2.cur == ID_F), "cycle_id did not switch to a fresh id");
            assert!(!m.cycled || sh2.old == ID_O, "cycle_id forgot the id the record is stored under");
            assert!(m.known || (sh2.idk == IdK::NewlyGenerated && sh2.cur == ID_F), "cycle_id on a new session must just pick another id");
        }
        _ => {
            assert!(s.force_load().is_ok(), "force_load failed");
            m.look(&w.db.borrow(), w.allow);
        }
    }
    assert!(s.is_invalidated() == m.invalidated);
    // cycle_id is the one operation allowed to move `cur`
    if op != 3 {
        check_step(&w, &s, &m);
    } else {
        let sh2 = shape_of(&s);
        let a = abs(&sh2);
        assert!(a.client == m.client && a.view == m.view && a.invalidated == m.invalidated && a.known == m.known && a.cycled == m.cycled, "cycle_id changed the session state");
        assert_inv(&sh2, &w.db.borrow());
        assert!(recs_eq(&w.db.borrow().recs, &w.db0), "cycle_id wrote to the store");
    }
    kani::cover!(op == 0 && w.sh.ssk == SsK::Unchanged && !vmap_is_empty(&w.sh.smap), "cleared a loaded non-empty state");
    kani::cover!(op == 3 && w.sh.idk == IdK::ToBeRenamed, "cycled twice");
    kani::cover!(op == 4 && m.invalidated && !w.sh.invalidated, "force_load rejected a missing record");
    std::mem::forget(s);
}

// @tier quick
// @obligation client-side get_raw / is_empty / insert_raw / remove_raw / clear (through client() and client_mut()) from every INV state: results == model, new state refines the model, server side untouched
// @bounds as c11_step_server_get; operation chosen symbolically among 5; key, value symbolic
// @functions ClientSessionState::{get_raw,is_empty}, ClientSessionStateMut::{get_raw,is_empty,insert_raw,remove_raw,clear}, client_get_raw, client_is_empty
#[kani::proof]
#[kani::unwind(4)]
#[kani::stub(std::fmt::format, fmt_stub)]
fn c11_step_client_ops() {
    let w = any_world(default_cookie());
    let mut s = build(&w.sh, w.store, w.cfg);
    let mut m = w.model;
    let (ki, k) = any_key();
    let op: u8 = nd::u8_below(5);
    let cv = any_value();
    vtrace_op(["client_get", "client_is_empty", "client_insert", "client_remove", "client_clear"][op as usize], ki, if op == 2 { cv } else { NONE });
    match op {
        0 => {
            let got = enc(s.client().get_raw(k).copied());
            assert!(got == m.client_get(ki), "client get_raw returned another value");
            let got2 = enc(s.client_mut().get_raw(k).copied());
            assert!(got2 == got, "client() and client_mut() disagree");
        }
        1 => {
            assert!(s.client().is_empty() == m.client_is_empty(), "client is_empty disagrees with the model");
            assert!(s.client_mut().is_empty() == m.client_is_empty());
        }
        2 => {
            let v = cv;
            let got = enc(s.client_mut().insert_raw(k, dec(v).unwrap()));
            assert!(got == m.client_insert(ki, v), "client insert_raw returned the wrong previous value");
        }
        3 => {
            let got = enc(s.client_mut().remove_raw(k));
            assert!(got == m.client_remove(ki), "client remove_raw returned the wrong value");
        }
        _ => {
            s.client_mut().clear();
            m.client_clear();
        }
    }
    check_step(&w, &s, &m);
    let sh2 = shape_of(&s);
    // a client-side change must be remembered as such (it decides whether a cookie / record is due)
    assert!(sh2.client_updated || sh2.cmap == w.sh.cmap, "client-side values changed but the state is still flagged unchanged");
    assert!(sh2.ssk == w.sh.ssk && sh2.smap == w.sh.smap, "a client-side operation touched the server-side state");
    kani::cover!(op == 2 && !w.sh.invalidated && !w.sh.client_updated, "first client-side write");
    kani::cover!(op == 3 && !w.sh.invalidated && w.sh.cmap[ki] != NONE, "client-side removal of an existing key");
    std::mem::forget(s);
}

// =============================================================================================
// Synchronisation with the store and the cookie (S2)
// =============================================================================================

/// What the store must look like after a successful `sync()` from model state `m` (pre-store
/// `db0`), and what the in-memory state must then refine. `cur` is the slot of the id the
/// cookie will carry. Written from the statement of C11: the next request - which loads the
/// record filed under the cookie's id - must find exactly the model's server-side values; the
/// old id must hold nothing after cycle_id; a deleted record must be gone; unrelated records are
/// never touched.
pub(super) fn check_synced(w: &World, s: &Session<'_>, ok: bool) {
    let m = &w.model;
    let db = w.db.borrow();
    let db0 = &w.db0;
    let o = slot_n(w.sh.old);
    let cur = slot_n(w.sh.cur);
    let never_skip = w.cfg.state.server_state_creation == ServerStateCreation::NeverSkip;
    // records filed under ids that are neither the session's old nor its new id are never touched
    // (unrolled: a 4-iteration loop would dictate the unwind bound of every harness)
    assert!(0 == o || 0 == cur || db.recs[0] == db0[0], "sync touched the record of an unrelated session");
    assert!(1 == o || 1 == cur || db.recs[1] == db0[1], "sync touched the record of an unrelated session");
    assert!(2 == o || 2 == cur || db.recs[2] == db0[2], "sync touched the record of an unrelated session");
    assert!(3 == o || 3 == cur || db.recs[3] == db0[3], "sync touched the record of an unrelated session");
    if !ok {
        // The one documented failure: the id was cycled without ever looking at the state and
        // the record to rename is not there (pinned by the crate's own test
        // `id_cycling_fails_if_the_old_state_record_is_gone_and_it_had_not_been_loaded_previously`).
        let documented = m.view == View::NotLooked && m.cycled && !db0[o].present;
        // with the expiry race there is one more: the ttl refresh of a loaded, unchanged record that
        // is no longer there has nothing to fall back to (no values would be lost: they are unchanged)
        let refresh_of_vanished = w.raced && w.sh.ssk == SsK::Unchanged && w.sh.idk == IdK::Existing;
        assert!(documented || refresh_of_vanished, "sync failed although the store answered every call as a plain map");
        assert!(recs_eq(&db.recs, db0), "a failed sync left the store modified");
        return;
    }
    match m.view {
        View::NotLooked => {
            if m.cycled {
                assert!(db0[o].present, "renaming a record that is not there must fail, not succeed silently");
                assert!(db.recs[cur].present && db.recs[cur].state == db0[o].state, "the record did not follow the session to its new id");
                assert!(!db.recs[o].present, "after cycle_id the state is still reachable under the old id");
            } else {
                assert!(recs_eq(&db.recs, db0), "sync wrote to the store although the state was never looked at");
            }
        }
        View::Present(map) => {
            assert!(db.recs[cur].present, "the server-side values were not persisted: the next request would find no record");
            assert!(db.recs[cur].state == map, "the record under the cookie's id does not hold the values the request ended with");
            if m.cycled {
                assert!(!db.recs[o].present, "after cycle_id the state is still reachable under the old id");
            }
        }
        View::Absent => {
            assert!(!db.recs[cur].present || db.recs[cur].state == EMPTY, "a record with values appeared out of nowhere");
            // "The storage backend will always be asked to create a server-side session state
            //  record if a client-side session state is present."
            if never_skip && !m.invalidated && (m.known || !vmap_is_empty(&m.client)) {
                assert!(db.recs[cur].present || m.cycled, "NeverSkip: no record was created although the client holds a session");
                assert!(db.recs[cur].present || !m.cycled, "NeverSkip: no record was created under the new id of a session whose id was cycled");
            }
            if m.cycled {
                assert!(!db.recs[o].present, "after cycle_id a record exists under the old id");
            }
        }
        View::Deleted => {
            assert!(!db.recs[cur].present, "a deleted/invalidated session still has a record under the cookie's id");
            if m.known {
                assert!(!db.recs[o].present, "a deleted/invalidated session still has its record");
            }
        }
    }
    // TTL policy (TtlExtensionTrigger / ttl_extension_threshold), asserted where the documentation is
    // unambiguous: a session known under its id, no store race. FRESH_TTL = 100 s, threshold 0.8 = 80 s.
    if w.sh.idk == IdK::Existing && !w.raced {
        let rec = &db.recs[cur];
        let on_loads = w.cfg.state.extend_ttl == TtlExtensionTrigger::OnStateLoadsAndChanges;
        let thr = w.cfg.state.ttl_extension_threshold.is_some();
        match w.sh.ssk {
            // "The TTL of the current session is refreshed on every request where the server modified the session state"
            SsK::Changed => assert!(!rec.present || rec.ttl == FRESH_TTL, "a modified state was persisted without a fresh ttl"),
            SsK::Unchanged => {
                if on_loads && (!thr || w.sh.rem_ttl < 80) {
                    assert!(rec.ttl == FRESH_TTL, "OnStateLoadsAndChanges: the state was loaded (below the threshold) but its ttl was not refreshed");
                }
                if (on_loads && thr && w.sh.rem_ttl > 80) || (!on_loads && !w.sh.client_updated) {
                    assert!(rec.ttl == db0[cur].ttl, "the ttl was refreshed although the trigger / threshold says it must not be");
                }
            }
            _ => {}
        }
    }
    // the in-memory state after sync: refines the synchronised model, INV again
    let sh2 = shape_of(s);
    let a = abs(&sh2);
    assert_inv(&sh2, &db);
    assert!(a.client == m.client && a.invalidated == m.invalidated, "sync changed client-side values or the invalidation flag");
    assert!(!a.cycled && sh2.cur == w.sh.cur && sh2.old == w.sh.cur, "after sync the session must be known under the id the cookie will carry");
    assert!(a.known == (m.known || db.recs[cur].present), "after sync the session is known iff it was before or a record now exists");
    let want_view = match m.view {
        View::NotLooked => View::NotLooked,
        View::Present(map) => View::Present(map),
        View::Absent => if db.recs[cur].present { View::Present(EMPTY) } else { View::Absent },
        View::Deleted => if m.invalidated { View::Deleted } else { View::Absent },
    };
    assert!(a.view == want_view, "the server-side view after sync differs from the synchronised model");
    assert!(sh2.ssk != SsK::Changed, "state still flagged as changed after sync");
}

pub(super) struct SyncOut {
    ok: bool,
    ssk: SsK,
    rec0_before: bool,
    rec0_after: bool,
}
fn sync_body(only: IdK) -> SyncOut {
    let w = any_world_k(default_cookie(), Some(only));
    let mut s = build(&w.sh, w.store, w.cfg);
    vtrace_op("sync", 0, NONE);
    let r = s.sync();
    let ok = r.is_ok();
    std::mem::forget(r);
    check_synced(&w, &s, ok);
    std::mem::forget(s);
    SyncOut { ok, ssk: w.sh.ssk, rec0_before: w.db0[0].present, rec0_after: w.db.borrow().recs[0].present }
}

// @tier quick
// @obligation sync() from every INV state of a session known under its id (Existing): what the next request would load under the cookie's id == the model's server-side values; deleted/invalidated record gone; unrelated record untouched; no failure; post-state satisfies INV and refines the synchronised model (hence sync is idempotent)
// @bounds keys {a,b}; values {null,false,true}; 5 server-state kinds x 2 client kinds x invalidated; store: 3 records arbitrary; config 2x2x2x2; backend answers every call as a plain map (no expiry race)
// @functions Session::sync, SessionStore::{create,update,update_ttl,delete}, SessionRecordRef::empty
// @timeout 1500
#[kani::proof]
#[kani::unwind(4)]
#[kani::stub(std::fmt::format, fmt_stub)]
fn c11_sync_existing() {
    let o = sync_body(IdK::Existing);
    kani::cover!(o.ok && o.ssk == SsK::Changed && !o.rec0_before, "changed state without a record to update");
    kani::cover!(o.ok && o.ssk == SsK::Unchanged, "unchanged state");
}

// @tier quick
// @obligation sync() from every INV state after cycle_id (ToBeRenamed): the record follows the session to the new id, the old id holds nothing, creation policy honoured under the new id; only the documented failure (never-loaded state, record gone) may fail and then leaves the store untouched; post-state INV + refinement
// @bounds as c11_sync_existing
// @functions Session::sync, SessionStore::{change_id,create,delete}
// @timeout 1500
#[kani::proof]
#[kani::unwind(4)]
#[kani::stub(std::fmt::format, fmt_stub)]
fn c11_sync_renamed() {
    let o = sync_body(IdK::ToBeRenamed);
    kani::cover!(o.ok && o.ssk == SsK::Changed, "renamed with changes");
    kani::cover!(!o.ok, "the documented failure");
    kani::cover!(o.ok && o.ssk == SsK::DoesNotExist, "renamed without a record");
}

// @tier quick
// @obligation sync() from every INV state of a brand-new session (NewlyGenerated): values persisted under the new id, creation policy honoured, nothing written for an empty session; post-state INV + refinement (the id is recorded as known once a record exists)
// @bounds as c11_sync_existing
// @functions Session::sync, SessionStore::create
// @timeout 1500
#[kani::proof]
#[kani::unwind(4)]
#[kani::stub(std::fmt::format, fmt_stub)]
fn c11_sync_new() {
    let o = sync_body(IdK::NewlyGenerated);
    kani::cover!(o.ok && o.ssk == SsK::Changed, "new session persisted");
    kani::cover!(o.ok && o.ssk == SsK::DoesNotExist && o.rec0_after, "empty record created by policy");
}

/// The documented race: "the old state is no longer in the store - e.g. it may have expired while
/// we were processing. Rare, but possible." The backend drops the record filed under the old id at
/// the first call sync makes. The values the request ended with must still reach the next request.
fn sync_race_body(only: IdK) -> SyncOut {
    let w0 = any_world_k(default_cookie(), Some(only));
    nd::assume(w0.db0[0].present);
    w0.db.borrow_mut().expire_o_now = true;
    let mut s = build(&w0.sh, w0.store, w0.cfg);
    vtrace_op("sync_with_expiry_race", 0, NONE);
    let r = s.sync();
    let ok = r.is_ok();
    std::mem::forget(r);
    let fired = w0.db.borrow().calls > 0;
    let mut db0 = w0.db0;
    if fired {
        db0[0] = NOREC;
    }
    let w = World { raced: fired, db0, ..w0 };
    // the in-memory view of an unchanged state that lost its record is stale by construction; the
    // refinement / INV part of check_synced is only meaningful when the race did not fire or the
    // state was rewritten; the store expectations hold in every case.
    check_synced(&w, &s, ok);
    std::mem::forget(s);
    SyncOut { ok, ssk: w.sh.ssk, rec0_before: true, rec0_after: w.db.borrow().recs[0].present }
}

// @tier quick
// @obligation sync() after cycle_id when the record expires between the request's load and sync's first store call: the values the request ended with are filed under the NEW id (fallback create), nothing is left under the old id, unrelated record untouched
// @bounds as c11_sync_existing; the backend drops the record under the old id at the first call sync makes
// @functions Session::sync (ChangeIdError::UnknownId / DeleteError::UnknownId fallbacks), SessionStore::{change_id,create,delete}
// @timeout 1500
#[kani::proof]
#[kani::unwind(4)]
#[kani::stub(std::fmt::format, fmt_stub)]
fn c11_sync_race_renamed() {
    let o = sync_race_body(IdK::ToBeRenamed);
    kani::cover!(o.ok && o.ssk == SsK::Unchanged, "loaded, unchanged, record gone: recreated under the new id");
    kani::cover!(o.ok && o.ssk == SsK::Changed, "changed, record gone");
}

// @tier quick
// @obligation sync() on a session known under its id when the record expires at sync's first store call: changed values are re-created under the same id (UpdateError::UnknownId fallback), a deletion is a no-op, only the ttl refresh of an unchanged state may fail
// @bounds as c11_sync_existing; the backend drops the record under the id at the first call sync makes
// @functions Session::sync (UpdateError::UnknownId fallback), SessionStore::{update,create,update_ttl,delete}
// @timeout 1500
#[kani::proof]
#[kani::unwind(4)]
#[kani::stub(std::fmt::format, fmt_stub)]
fn c11_sync_race_existing() {
    let o = sync_race_body(IdK::Existing);
    kani::cover!(o.ok && o.ssk == SsK::Changed && o.rec0_after, "changed, record gone: recreated");
    kani::cover!(!o.ok && o.ssk == SsK::Unchanged, "ttl refresh of a vanished record fails");
}

/// Decode the cookie value written by the real `Serialize` derive of `WireClientState`
/// (token tape of the serde_json shim) into (id, client map).
pub(super) fn decode_tape() -> Option<(u128, VMap)> {
    use serde_json::verif::{tape, Tok};
    let t = tape();
    if t.overflow || t.n < 4 {
        return None;
    }
    // { "0": <id> [, "1": { k: v, ... }] }
    if t.toks[0] != Tok::StructStart || t.toks[1] != Tok::Field("0") {
        return None;
    }
    let id = match t.toks[2] {
        Tok::U128(x) => x,
        _ => return None,
    };
    let mut m = EMPTY;
    let mut i = 3;
    if t.toks[i] == Tok::Field("1") {
        if t.toks[i + 1] != Tok::MapStart {
            return None;
        }
        i += 2;
        let mut n = 0;
        while n < 3 {
            match t.toks[i] {
                Tok::Key(b, 1) => {
                    let k = if b[0] == b'a' { 0 } else if b[0] == b'b' { 1 } else { return None };
                    match t.toks[i + 1] {
                        Tok::Scalar(v) => {
                            if m[k] != NONE {
                                return None;
                            }
                            m[k] = enc(Some(v))
                        }
                        _ => return None,
                    }
                    i += 2;
                }
                Tok::MapEnd => {
                    i += 1;
                    break;
                }
                _ => return None,
            }
            n += 1;
        }
    }
    if t.toks[i] != Tok::StructEnd || i + 1 != t.n {
        return None;
    }
    Some((id, m))
}

/// returns (0 = error, 1 = no cookie, 2 = removal cookie, 3 = session cookie; client values non-empty; invalidated)
fn finalize_body(only: IdK) -> (u8, bool, bool) {
    let w = any_world_k(default_cookie(), Some(only));
    let mut s = build(&w.sh, w.store, w.cfg);
    let m = w.model;
    vtrace_op("finalize", 0, NONE);
    let r = s.finalize();
    let cur = slot_n(w.sh.cur);
    match &r {
        Err(_) => check_synced(&w, &s, false),
        Ok(cookie) => {
            check_synced(&w, &s, true);
            let db = w.db.borrow();
            if m.invalidated {
                match cookie {
                    Some(c) => assert!(m.known && c.removal, "an invalidated session must get a removal cookie, and only if the client had a session"),
                    None => assert!(!m.known, "no removal cookie for an invalidated session the client knows about"),
                }
            } else {
                let nothing_to_say = vmap_is_empty(&m.client) && !m.known && !db.recs[cur].present;
                match cookie {
                    None => assert!(nothing_to_say, "no session cookie although there is state to carry over"),
                    Some(c) => {
                        assert!(!nothing_to_say, "a session cookie for a brand-new empty session");
                        assert!(!c.removal, "a live session got a removal cookie");
                        match decode_tape() {
                            Some((id, cm)) => {
                                assert!(id == w.sh.cur, "the cookie carries an id other than the one the record lives under");
                                assert!(cm == m.client, "the cookie does not carry the client-side values the request ended with");
                            }
                            None => assert!(false, "the cookie value is not a well-formed wire state"),
                        }
                    }
                }
            }
        }
    }
    let code = match &r {
        Err(_) => 0,
        Ok(None) => 1,
        Ok(Some(c)) => if c.removal { 2 } else { 3 },
    };
    std::mem::forget(r);
    std::mem::forget(s);
    (code, !vmap_is_empty(&m.client), m.invalidated)
}

// @tier quick
// @obligation finalize() from every INV state of a session known under its id: everything c11_sync_* asserts, plus the cookie decision - invalidated: a removal cookie iff the session was known; otherwise no cookie only for a new session with no client-side values and no record, else a cookie whose value (written by the real Serialize derive) carries exactly the id the record lives under and the model's client-side values
// @bounds as c11_sync_existing; cookie configuration = defaults (C12 covers the attribute matrix)
// @functions Session::finalize, Session::sync, WireClientState (derived Serialize), ResponseCookie/RemovalCookie builders
// @timeout 1800
#[kani::proof]
#[kani::unwind(5)]
#[kani::stub(std::fmt::format, fmt_stub)]
fn c11_finalize_existing() {
    let (code, client_vals, _inv) = finalize_body(IdK::Existing);
    kani::cover!(code == 2, "removal cookie");
    kani::cover!(code == 3 && client_vals, "cookie with client-side values");
}

// @tier quick
// @obligation finalize() from every INV state of a session whose id was cycled: everything c11_sync_* asserts, plus the cookie decision - invalidated: a removal cookie iff the session was known; otherwise no cookie only for a new session with no client-side values and no record, else a cookie whose value (written by the real Serialize derive) carries exactly the id the record lives under and the model's client-side values
// @bounds as c11_sync_existing; cookie configuration = defaults (C12 covers the attribute matrix)
// @functions Session::finalize, Session::sync, WireClientState (derived Serialize), ResponseCookie/RemovalCookie builders
// @timeout 1800
#[kani::proof]
#[kani::unwind(5)]
#[kani::stub(std::fmt::format, fmt_stub)]
fn c11_finalize_renamed() {
    let (code, client_vals, _inv) = finalize_body(IdK::ToBeRenamed);
    kani::cover!(code == 2, "removal cookie");
    kani::cover!(code == 3 && client_vals, "cookie with client-side values");
    kani::cover!(code == 0, "the documented failure");
}

// @tier quick
// @obligation finalize() from every INV state of a brand-new session: everything c11_sync_* asserts, plus the cookie decision - invalidated: a removal cookie iff the session was known; otherwise no cookie only for a new session with no client-side values and no record, else a cookie whose value (written by the real Serialize derive) carries exactly the id the record lives under and the model's client-side values
// @bounds as c11_sync_existing; cookie configuration = defaults (C12 covers the attribute matrix)
// @functions Session::finalize, Session::sync, WireClientState (derived Serialize), ResponseCookie/RemovalCookie builders
// @timeout 1800
#[kani::proof]
#[kani::unwind(5)]
#[kani::stub(std::fmt::format, fmt_stub)]
fn c11_finalize_new() {
    let (code, client_vals, inv) = finalize_body(IdK::NewlyGenerated);
    kani::cover!(code == 1 && !inv, "no cookie for an empty new session");
    kani::cover!(code == 1 && inv, "no removal cookie for an invalidated new session");
    kani::cover!(code == 3 && client_vals, "cookie with client-side values");
}


// =============================================================================================
// Cross-check of the induction: two operations and a sync in ONE query (exploratory)
// =============================================================================================

/// one in-request operation on both the real session and the model
fn apply_any_op(w: &World, s: &mut Session<'static>, m: &mut Model) {
    let (ki, k) = any_key();
    let v = any_value();
    let op: u8 = nd::u8_below(9);
    vtrace_op(["server_insert", "server_remove", "server_clear", "delete", "cycle_id", "invalidate", "client_insert", "client_remove", "server_get"][op as usize], ki, if op == 0 || op == 6 { v } else { NONE });
    // in-request operations never write to the store: a snapshot is what the model reads
    let db = Db { recs: w.db.borrow().recs, calls: 0, expire_o_now: false };
    match op {
        0 => {
            let got = s.insert_raw(k, dec(v).unwrap()).map(enc);
            let want = m.server_insert(&db, w.allow, ki, v);
            assert!(matches!(got, Ok(g) if g == want), "history: insert_raw result");
        }
        1 => {
            let got = s.remove_raw(k).map(enc);
            let want = m.server_remove(&db, w.allow, ki);
            assert!(matches!(got, Ok(g) if g == want), "history: remove_raw result");
        }
        2 => {
            assert!(s.clear().is_ok());
            m.server_clear(&db, w.allow);
        }
        3 => {
            s.delete();
            m.delete();
        }
        4 => {
            s.cycle_id();
            m.cycle_id();
        }
        5 => {
            s.invalidate();
            m.invalidate();
        }
        6 => {
            let got = enc(s.client_mut().insert_raw(k, dec(v).unwrap()));
            assert!(got == m.client_insert(ki, v), "history: client insert result");
        }
        7 => {
            let got = enc(s.client_mut().remove_raw(k));
            assert!(got == m.client_remove(ki), "history: client remove result");
        }
        _ => {
            let got = s.get_raw(k).map(|o| enc(o.copied()));
            let want = m.server_get(&db, w.allow, ki);
            assert!(matches!(got, Ok(g) if g == want), "history: get_raw result");
        }
    }
    let sh = shape_of(s);
    let a = abs(&sh);
    assert!(a.client == m.client && a.view == m.view && a.invalidated == m.invalidated && a.known == m.known && a.cycled == m.cycled, "history: the session state differs from the reference model after an operation");
    assert_inv(&sh, &w.db.borrow());
}

// @tier thorough
// @exploratory 1
// @obligation cross-check of the inductive argument: from every INV state, TWO arbitrary in-request operations followed by sync() in one query agree with the reference model at every step and satisfy the sync post-condition (a time-out is recorded and changes nothing; a counterexample that replays natively is reported like any other)
// @bounds as c11_sync_existing; 9 operations x 9 operations
// @functions Session::{insert_raw,remove_raw,clear,delete,cycle_id,invalidate,get_raw,sync}, ClientSessionStateMut::{insert_raw,remove_raw}
// @timeout 3600
// @mem 40
#[kani::proof]
#[kani::unwind(4)]
#[kani::stub(std::fmt::format, fmt_stub)]
fn c11_history_2() {
    let w0 = any_world(default_cookie());
    let mut s = build(&w0.sh, w0.store, w0.cfg);
    let mut m = w0.model;
    apply_any_op(&w0, &mut s, &mut m);
    apply_any_op(&w0, &mut s, &mut m);
    let sh = shape_of(&s);
    vtrace_op("sync", 0, NONE);
    let r = s.sync();
    let ok = r.is_ok();
    std::mem::forget(r);
    let w = World { sh, model: m, ..w0 };
    check_synced(&w, &s, ok);
    kani::cover!(ok && sh.idk == IdK::ToBeRenamed && sh.cur == ID_F, "two operations ending in a cycled id");
    std::mem::forget(s);
}

// =============================================================================================
// The next request (S3): cookie -> IncomingSession::extract -> Session::new
// =============================================================================================

// @tier thorough
// @obligation the next request: the cookie value written by the real Serialize derive for an arbitrary (id, client map) is read back by the real IncomingSession::extract (real Deserialize derive) as exactly that id and map, and Session::new on it (or on no cookie) yields a state that satisfies INV and abstracts to "known, not looked at, these client values" (resp. "new, absent, empty") - the base case and the request-to-request link of the induction
// @bounds id in {O, X}; client map over keys {a,b} x {null,false,true}; store arbitrary; with and without cookie
// @functions WireClientState (derived Serialize + Deserialize), IncomingSession::extract, IncomingSession::from_parts, Session::new
// @timeout 2700
#[kani::proof]
#[kani::unwind(5)]
#[kani::stub(std::fmt::format, fmt_stub)]
fn c11_new_from_cookie() {
    let db = any_db();
    let cfg = leak_config(any_state_config(), default_cookie());
    let store: &'static SessionStore = Box::leak(Box::new(SessionStore::new(Mem(db))));
    let with_cookie = nd::any_bool();
    let cm = any_vmap();
    let incoming = if with_cookie {
        // what the previous response carried
        let wire = WireClientState { session_id: sid(ID_O), user_values: Cow::Owned(to_state(&cm)) };
        let r = serde_json::to_string(&wire);
        assert!(r.is_ok(), "the wire state could not be serialised");
        std::mem::forget(wire);
        // ... comes back in the request's cookie jar
        let jar = pavex::cookie::RequestCookies { session: Some("") };
        let inc = IncomingSession::extract(&jar, &cfg.cookie);
        match &inc {
            Some(i) => {
                assert!(i.id.inner().as_u128() == ID_O, "the id read from the cookie is not the id that was written");
                assert!(state_ok(&i.client_state) && of_state(&i.client_state) == cm, "the client-side values read from the cookie differ from those written");
            }
            None => assert!(false, "a cookie written by finalize was not accepted by extract"),
        }
        inc
    } else {
        None
    };
    let s = Session::new(store, cfg, incoming);
    let sh = shape_of(&s);
    let m = abs(&sh);
    if with_cookie {
        assert!(sh.idk == IdK::Existing && sh.old == ID_O && sh.cur == ID_O, "a session continued from a cookie must be known under the cookie's id");
        assert!(m.view == View::NotLooked && !m.invalidated && m.client == cm && !sh.client_updated, "a continued session starts unloaded, valid, with the cookie's client values");
    } else {
        assert!(sh.idk == IdK::NewlyGenerated && sh.cur == ID_F && sh.old == ID_F, "a session without cookie must get a fresh id");
        assert!(m.view == View::Absent && !m.invalidated && vmap_is_empty(&m.client) && !sh.client_updated, "a new session starts empty");
    }
    assert_inv(&sh, &db.borrow());
    kani::cover!(with_cookie && !vmap_is_empty(&cm), "cookie with client values");
    kani::cover!(!with_cookie, "no cookie");
    std::mem::forget(s);
}

/// Native search for a concrete failing input (see nd.rs); only built when a counterexample has to
/// be made concrete.
#[cfg(test)]
mod native_search {
    use super::*;
    pub(in super::super) fn reset() {
        uuid::verif_reset();
        serde_json::verif::set_tape(serde_json::verif::EMPTY_TAPE);
    }
    macro_rules! searches { ($($h:ident),*) => { $( #[test] fn $h() { nd::search(stringify!($h), super::$h, reset) } )* } }
    searches!(c11_step_server_get, c11_step_server_insert, c11_step_server_remove, c11_step_server_lifecycle, c11_step_client_ops,
              c11_sync_existing, c11_sync_renamed, c11_sync_new, c11_sync_race_renamed, c11_sync_race_existing,
              c11_finalize_existing, c11_finalize_renamed, c11_finalize_new, c11_new_from_cookie, c11_history_2);
}
