// ------------------------------------------------------------------------------------------------
// Verification harnesses for C12 (session cookies are never emitted unprotected; attributes).
// Child module of the scratch copy of session_.rs, next to verif_c11 whose scaffolding it reuses:
// the real `finalize_session` middleware runs on every INV state of `Session`, with a symbolic
// cookie configuration and a symbolic answer of the cookie processor.
// Outside the claim: the Debug-redaction clause (core::fmt machinery) and biscotti's actual
// crypto - `Processor::will_encrypt` / `will_sign` are taken at their word.
// ------------------------------------------------------------------------------------------------
#![allow(dead_code, unused_imports, clippy::all)]

use super::verif_c11::*;
use super::*;
use crate::config::{SessionCookieConfig, SessionCookieKind};
use crate::middleware::finalize_session;
use pavex::Response;
use pavex::cookie::{Processor, ResponseCookies, SameSite};
use std::cell::RefCell;
use crate::config::SessionStateConfig;

fn str_eq(a: &str, b: &str) -> bool {
    let (a, b) = (a.as_bytes(), b.as_bytes());
    if a.len() != b.len() {
        return false;
    }
    let mut i = 0;
    while i < a.len() {
        if a[i] != b[i] {
            return false;
        }
        i += 1;
    }
    true
}
fn opt_str_eq(a: Option<&str>, b: Option<&str>) -> bool {
    match (a, b) {
        (None, None) => true,
        (Some(x), Some(y)) => str_eq(x, y),
        _ => false,
    }
}

/// Every combination of the seven cookie settings (strings range over {absent, one fixed value}).
fn any_cookie_config() -> SessionCookieConfig {
    let mut c = SessionCookieConfig::default();
    // one heap string with a symbolic byte, not a choice between two heap strings of different
    // length: symbolic-length heap strings are mis-modelled by Kani 0.68/CBMC 6.11
    // (see /verif/notes/kani_repros_strings.rs)
    let second: u8 = if nd::any_bool() { b'd' } else { b'x' };
    c.name = unsafe { String::from_utf8_unchecked(vec![b'i', second]) };
    c.domain = if nd::any_bool() { Some("d".to_string()) } else { None };
    c.path = if nd::any_bool() { Some("/p".to_string()) } else { None };
    c.secure = nd::any_bool();
    c.http_only = nd::any_bool();
    let ss: u8 = nd::u8_below(4);
    c.same_site = match ss {
        0 => None,
        1 => Some(SameSite::Strict),
        2 => Some(SameSite::Lax),
        _ => Some(SameSite::None),
    };
    c.kind = if nd::any_bool() { SessionCookieKind::Persistent } else { SessionCookieKind::Session };
    c
}

#[cfg(not(test))]
fn vtrace_c12(_c: &SessionCookieConfig, _enc: bool, _sign: bool) {}
#[cfg(test)]
fn vtrace_c12(c: &SessionCookieConfig, enc: bool, sign: bool) {
    let q = |o: &Option<String>| match o { Some(s) => format!("\"{s}\""), None => "null".to_string() };
    let ss = match c.same_site { None => "null", Some(SameSite::Strict) => "\"strict\"", Some(SameSite::Lax) => "\"lax\"", Some(SameSite::None) => "\"none\"" };
    vtrace(format!(
        "{{\"kind\":\"c12\",\"cookie\":{{\"name\":\"{}\",\"domain\":{},\"path\":{},\"secure\":{},\"http_only\":{},\"same_site\":{},\"kind\":\"{}\"}},\"middleware\":{{\"encrypts\":{},\"signs\":{}}}}}",
        c.name, q(&c.domain), q(&c.path), c.secure, c.http_only, ss,
        if c.kind == SessionCookieKind::Persistent { "persistent" } else { "session" }, enc, sign
    ));
}

/// returns (outcome code: 0 err-crypto, 1 err-encryption, 2 other error, 3 ok without cookie, 4 ok with cookie; client non-empty)
fn middleware_body(only: IdK) -> (u8, bool) {
    let w = any_world_k(any_cookie_config(), Some(only));
    let s = build(&w.sh, w.store, w.cfg);
    let m = w.model;
    let processor = Processor { encrypts: nd::any_bool(), signs: nd::any_bool() };
    let will_encrypt = processor.will_encrypt("");
    let will_sign = processor.will_sign("");
    let mut jar = ResponseCookies::default();
    let client_non_empty = !m.client_is_empty();
    vtrace_c12(&w.cfg.cookie, processor.encrypts, processor.signs);
    vtrace_op("finalize", 0, NONE);
    let r = finalize_session(Response, &mut jar, &processor, s);
    let cc = &w.cfg.cookie;
    let code = match &r {
        Ok(_) => {
            match &jar.inserted {
                None => {
                    assert!(jar.n == 0);
                    3
                }
                Some(c) => {
                    assert!(jar.n == 1, "more than one session cookie was attached");
                    // the core of C12
                    assert!(will_encrypt || will_sign, "a session cookie was attached although the processor neither signs nor encrypts it");
                    assert!(!client_non_empty || will_encrypt, "client-side state travels in a cookie that is not encrypted");
                    // attributes
                    assert!(str_eq(&c.name, &cc.name), "cookie name differs from the configured one");
                    assert!(opt_str_eq(c.domain.as_deref(), cc.domain.as_deref()), "cookie domain differs from the configured one");
                    assert!(opt_str_eq(c.path.as_deref(), cc.path.as_deref()), "cookie path differs from the configured one");
                    if !c.removal {
                        assert!(c.same_site == cc.same_site, "SameSite differs from the configured one");
                        assert!(c.secure == if cc.secure { Some(true) } else { None }, "Secure differs from the configured one");
                        assert!(c.http_only == if cc.http_only { Some(true) } else { None }, "HttpOnly differs from the configured one");
                        let want_age = if cc.kind == SessionCookieKind::Persistent { Some(pavex::time::SignedDuration::from_secs(FRESH_TTL as i64)) } else { None };
                        assert!(c.max_age == want_age, "max-age is not the state ttl of a persistent cookie / not absent for a session cookie");
                        assert!(!m.invalidated, "an invalidated session got a live cookie");
                    } else {
                        assert!(m.invalidated, "a live session got a removal cookie");
                    }
                    4
                }
            }
        }
        Err(e) => {
            assert!(jar.n == 0 && jar.inserted.is_none(), "the request failed but a session cookie was attached anyway");
            match e {
                FinalizeError::CryptoRequired { .. } => {
                    assert!(!will_encrypt && !will_sign, "CryptoRequired although the cookie would have been protected");
                    0
                }
                FinalizeError::EncryptionRequired { .. } => {
                    assert!(client_non_empty && !will_encrypt, "EncryptionRequired although the cookie would have been encrypted or carries no client state");
                    1
                }
                _ => 2,
            }
        }
    };
    // a cookie that is due and protectable must not be swallowed
    let db = w.db.borrow();
    let cur = if w.sh.cur == ID_N { 1 } else { 0 };
    if code == 3 {
        if m.invalidated {
            assert!(!m.known, "an invalidated session the client knows about got no removal cookie");
        } else {
            assert!(vmap_is_empty(&m.client) && !m.known && !db.recs[cur].present, "no session cookie although there is state to carry over");
        }
    }
    if code == 2 {
        assert!(m.view == View::NotLooked && m.cycled && !w.db0[0].present, "finalize failed although the store answered every call as a plain map");
    }
    std::mem::forget(r);
    (code, client_non_empty)
}

// @tier quick
// @obligation finalize_session (the real middleware) on every INV state of a session known under its id, every cookie configuration (2 names x domain x path x Secure x HttpOnly x 4 SameSite x kind) and every processor answer: a cookie is attached only if signed-or-encrypted and, with non-empty client state, encrypted; otherwise the documented error and nothing attached; attached cookies carry exactly the configured name/domain/path/SameSite/Secure/HttpOnly and max-age = ttl iff persistent; removal cookies carry name/domain/path
// @bounds session state as C11 (keys {a,b}, 3 values, all state kinds); processor answers: 2 arbitrary bools
// @functions finalize_session, Session::finalize, Session::sync, ClientSessionState::is_empty
// @timeout 2400
#[kani::proof]
#[kani::unwind(5)]
#[kani::stub(std::fmt::format, fmt_stub)]
fn c12_middleware_existing() {
    let (code, client) = middleware_body(IdK::Existing);
    kani::cover!(code == 0, "CryptoRequired");
    kani::cover!(code == 1, "EncryptionRequired");
    kani::cover!(code == 4 && client, "encrypted cookie with client state");
    kani::cover!(code == 4 && !client, "signed cookie / removal cookie");
}

// @tier quick
// @obligation as c12_middleware_existing, for a session whose id was cycled
// @bounds as c12_middleware_existing
// @functions finalize_session, Session::finalize, Session::sync
// @timeout 2400
#[kani::proof]
#[kani::unwind(5)]
#[kani::stub(std::fmt::format, fmt_stub)]
fn c12_middleware_renamed() {
    let (code, client) = middleware_body(IdK::ToBeRenamed);
    kani::cover!(code == 0, "CryptoRequired");
    kani::cover!(code == 1, "EncryptionRequired");
    kani::cover!(code == 2, "documented sync failure");
    kani::cover!(code == 4 && client, "encrypted cookie with client state");
}

// @tier quick
// @obligation as c12_middleware_existing, for a brand-new session (including: no cookie at all for an empty new session, whatever the processor says)
// @bounds as c12_middleware_existing
// @functions finalize_session, Session::finalize, Session::sync
// @timeout 2400
#[kani::proof]
#[kani::unwind(5)]
#[kani::stub(std::fmt::format, fmt_stub)]
fn c12_middleware_new() {
    let (code, client) = middleware_body(IdK::NewlyGenerated);
    kani::cover!(code == 0, "CryptoRequired");
    kani::cover!(code == 1, "EncryptionRequired");
    kani::cover!(code == 3, "no cookie");
    kani::cover!(code == 4 && client, "encrypted cookie with client state");
}

// ---------------------------------------------------------------------------------------------
// "the session id never appears in the Debug output of the session"
// ---------------------------------------------------------------------------------------------
/// Where the Debug output goes: every piece of text is scanned for the marker character that the
/// `uuid` shim writes whenever an id is rendered (Display, Debug, hex).
struct Sink {
    marker_seen: bool,
    bytes: usize,
}
impl std::fmt::Write for Sink {
    fn write_str(&mut self, s: &str) -> std::fmt::Result {
        // the marker is written by the uuid shim in a call of its own (a String that contains it would
        // be escaped by <str as Debug>), so looking at the first byte is enough - and loop-free
        let b = s.as_bytes();
        if !b.is_empty() && b[0] == 1 {
            self.marker_seen = true;
        }
        self.bytes += b.len();
        Ok(())
    }
}

/// `Formatter::pad` without width / precision (the case of `{:?}` and `{:#?}`) is `write_str`; the real
/// one drags `str::count` (SIMD-style char counting) into the model, which CBMC unwinds hundreds of times.
fn pad_stub<'a: 'a>(f: &mut std::fmt::Formatter<'a>, s: &str) -> std::fmt::Result {
    f.write_str(s)
}

/// `{:?}` (and `{:#?}`) of a session in every INV state of the given id kind: the real manual Debug
/// impl of `Session`, the derived ones of `ServerState` / `ClientState` / `SessionConfig` /
/// `SessionStore` and the real core::fmt run; the id (old, current or fresh) is never rendered and
/// never even read while formatting.
fn debug_body(only: IdK, pretty: bool) -> usize {
    // configuration and remaining ttl are concrete: they do not decide what is printed about the id,
    // and formatting symbolic integers / the f32 threshold is beyond CBMC
    // redaction must hold in every representable state, whether or not the invariant holds and whatever
    // the store contains: the store is empty and INV is not assumed (a superset of the reachable states);
    // map contents are empty (the map shim prints nothing, values cannot carry an id)
    let mut sh = any_shape_k(Some(only));
    sh.rem_ttl = 7;
    sh.smap = EMPTY;
    sh.cmap = EMPTY;
    let db: &'static RefCell<Db> = Box::leak(Box::new(RefCell::new(Db { recs: [NOREC; 4], calls: 0, expire_o_now: false })));
    let mut st = SessionStateConfig::default();
    st.ttl_extension_threshold = None;
    let cfg = leak_config(st, SessionCookieConfig::default());
    let store: &'static SessionStore = Box::leak(Box::new(SessionStore::new(Mem(db))));
    let allow = true;
    let db0 = db.borrow().recs;
    let w = World { raced: false, sh, db, store, cfg, allow, model: abs(&sh), db0 };
    vtrace_world(&w);
    vtrace_op("debug", 0, NONE);
    let s = build(&w.sh, w.store, w.cfg);
    let mut out = Sink { marker_seen: false, bytes: 0 };
    unsafe {
        uuid::verif::LEAKED = false;
        uuid::verif::FORMATTING = true;
    }
    let r = if pretty { std::fmt::write(&mut out, format_args!("{:#?}", s)) } else { std::fmt::write(&mut out, format_args!("{:?}", s)) };
    unsafe { uuid::verif::FORMATTING = false };
    assert!(r.is_ok(), "formatting a session failed");
    assert!(!out.marker_seen, "the Debug output of the session contains a session id");
    assert!(!unsafe { uuid::verif::LEAKED }, "a session id was read while the session was being formatted");
    std::mem::forget(s);
    out.bytes
}

// @tier quick
// @obligation format!(\"{:?}\", session) for every state of a session known under its id or freshly created (all server/client state kinds, invalidated or not): the real Debug impl of Session and the derived ones of its fields run through the real core::fmt; no session id is rendered into the output and none is read while formatting
// @bounds every id kind x server-state kind x client-state kind x invalidated (INV not assumed: a superset of the reachable states); empty maps and store; configuration and remaining ttl concrete (default config, no ttl threshold, 7 s)
// @functions <Session as Debug>::fmt, <ServerState as Debug>::fmt, <ClientState as Debug>::fmt, <InvalidationFlag as Debug>::fmt, <SessionConfig as Debug>::fmt, <SessionStore as Debug>::fmt
// @timeout 1500
// @solver default
#[kani::proof]
#[kani::unwind(32)]
#[kani::stub(std::fmt::Formatter::pad, pad_stub)]
fn c12_debug_redacts_id_existing_or_new() {
    let k = if nd::any_bool() { IdK::Existing } else { IdK::NewlyGenerated };
    let n = debug_body(k, false);
    kani::cover!(n > 40, "something was printed");
}

// @tier quick
// @obligation as c12_debug_redacts_id_existing_or_new, for a session whose id was cycled (old and new id)
// @bounds as c12_debug_redacts_id_existing_or_new
// @functions <Session as Debug>::fmt and the Debug impls of its fields
// @timeout 1500
// @solver default
#[kani::proof]
#[kani::unwind(32)]
#[kani::stub(std::fmt::Formatter::pad, pad_stub)]
fn c12_debug_redacts_id_renamed() {
    let n = debug_body(IdK::ToBeRenamed, false);
    kani::cover!(n > 40, "something was printed");
}

#[cfg(test)]
mod native_search {
    use super::*;
    fn reset() {
        uuid::verif_reset();
        serde_json::verif::set_tape(serde_json::verif::EMPTY_TAPE);
    }
    macro_rules! searches { ($($h:ident),*) => { $( #[test] fn $h() { nd::search(stringify!($h), super::$h, reset) } )* } }
    searches!(c12_middleware_existing, c12_middleware_renamed, c12_middleware_new, c12_debug_redacts_id_existing_or_new, c12_debug_redacts_id_renamed);
}
