"""Shared machinery: scratch copy of /repo, source rewrites, Kani runs, result parsing, evidence.

Everything here is engine plumbing; property logic lives in the harness crates under
/verif/harness and in the per-property drivers under vf/props.
"""
from __future__ import annotations

import fcntl
import hashlib
import json
import os
import re
import resource
import shutil
import subprocess
import sys
import time
from concurrent.futures import ThreadPoolExecutor
from dataclasses import dataclass, field
from pathlib import Path

VERIF = Path(__file__).resolve().parents[2]
REPO = Path(os.environ.get("VERIF_REPO", "/repo"))
SCRATCH_ROOT = Path(os.environ.get("VERIF_SCRATCH", "/var/tmp/pavex-verif"))
CACHE = Path(os.environ.get("VERIF_CACHE", str(VERIF / ".cache")))
CORES = os.cpu_count() or 4

# Exit codes of bin/check
EXIT_OK = 0
EXIT_VIOLATION = 1
EXIT_INCONCLUSIVE = 2


def log(msg: str) -> None:
    print(msg, flush=True)


def env_offline() -> dict:
    e = dict(os.environ)
    e["CARGO_NET_OFFLINE"] = "true"
    e.pop("RUSTFLAGS", None)
    e.pop("RUSTUP_TOOLCHAIN", None)
    e["CARGO_TERM_COLOR"] = "never"
    return e


# --------------------------------------------------------------------------------------------
# scratch copy
# --------------------------------------------------------------------------------------------

class Scratch:
    """A fresh rsync of /repo's working tree under SCRATCH_ROOT/<name>, exclusive per name."""

    def __init__(self, name: str):
        # one scratch area per (checkout of /verif, property): a background run from a snapshot of
        # /verif never contends with a run from /verif itself
        tag = hashlib.sha256(str(VERIF).encode()).hexdigest()[:6]
        self.name = f"{name}-{tag}"
        self.root = SCRATCH_ROOT / self.name
        self.repo = self.root / "repo"
        self._lock = None

    def __enter__(self) -> "Scratch":
        self.root.mkdir(parents=True, exist_ok=True)
        self._lock = open(self.root / ".lock", "w")
        fcntl.flock(self._lock, fcntl.LOCK_EX)
        t0 = time.time()
        subprocess.run(
            ["rsync", "-a", "--delete", "--exclude", "/target", "--exclude", ".git",
             "--exclude", "/docs", "--exclude", "/examples", "--exclude", "/compiler/ui_tests",
             f"{REPO}/", f"{self.repo}/"],
            check=True,
        )
        self.neutralise_workspace_hack()
        self.sync_s = time.time() - t0
        return self

    def __exit__(self, *exc) -> None:
        if os.environ.get("VERIF_KEEP_SCRATCH") != "1":
            for p in self.root.iterdir():
                if p.name == ".lock":
                    continue
                if p.is_dir():
                    shutil.rmtree(p, ignore_errors=True)
                else:
                    p.unlink(missing_ok=True)
        fcntl.flock(self._lock, fcntl.LOCK_UN)
        self._lock.close()

    def neutralise_workspace_hack(self) -> None:
        """What `cargo hakari disable` does: px_workspace_hack keeps its name, loses its deps.

        Needed because the hakari section drags the whole workspace (sqlx, backtrace, ...) into
        every member and `backtrace` does not build under kani-compiler."""
        p = self.repo / "px_workspace_hack" / "Cargo.toml"
        if not p.exists():
            return
        s = p.read_text()
        s2 = re.sub(r"### BEGIN HAKARI SECTION.*### END HAKARI SECTION",
                    "### BEGIN HAKARI SECTION\n### END HAKARI SECTION", s, flags=re.S)
        p.write_text(s2)

    def tree_digest(self, rel_paths: list[str]) -> str:
        h = hashlib.sha256()
        for r in sorted(rel_paths):
            p = REPO / r
            if p.is_dir():
                for f in sorted(p.rglob("*.rs")):
                    h.update(str(f.relative_to(REPO)).encode())
                    h.update(f.read_bytes())
            elif p.exists():
                h.update(r.encode())
                h.update(p.read_bytes())
        return h.hexdigest()[:16]


# --------------------------------------------------------------------------------------------
# source rewrites (applied to the scratch copy only)
# --------------------------------------------------------------------------------------------

class RewriteError(Exception):
    pass


def _mask_non_code(src: str) -> str:
    """Return a same-length string where comments, string and char literals are blanked, so
    that token-level regexes only ever match code."""
    out = list(src)
    i, n = 0, len(src)
    while i < n:
        c = src[i]
        if src.startswith("//", i):
            j = src.find("\n", i)
            j = n if j < 0 else j
            for k in range(i, j):
                out[k] = " "
            i = j
        elif src.startswith("/*", i):
            depth, j = 1, i + 2
            while j < n and depth:
                if src.startswith("/*", j):
                    depth += 1; j += 2
                elif src.startswith("*/", j):
                    depth -= 1; j += 2
                else:
                    j += 1
            for k in range(i, j):
                if out[k] != "\n":
                    out[k] = " "
            i = j
        elif c == '"' or (c == "r" and re.match(r'r#*"', src[i:i + 8]) and (i == 0 or not (src[i - 1].isalnum() or src[i - 1] == "_"))):
            if c == "r":
                m = re.match(r'r(#*)"', src[i:])
                hashes = m.group(1)
                end = src.find('"' + hashes, i + len(m.group(0)))
                j = n if end < 0 else end + 1 + len(hashes)
            else:
                j = i + 1
                while j < n and src[j] != '"':
                    j += 2 if src[j] == "\\" else 1
                j += 1
            for k in range(i + 1, min(j, n) - 1):
                if out[k] != "\n":
                    out[k] = " "
            i = j
        elif c == "'":
            # char literal or lifetime
            m = re.match(r"'(\\.[^']*|[^\\'])'", src[i:])
            if m:
                for k in range(i + 1, i + len(m.group(0)) - 1):
                    out[k] = " "
                i += len(m.group(0))
            else:
                i += 1
        else:
            i += 1
    return "".join(out)


def rewrite_tokens(src: str, rules: list[tuple[str, str]]) -> tuple[str, dict]:
    """Apply regex rules on code tokens only (comments/strings masked). Returns new source and
    the number of sites rewritten per rule."""
    counts = {}
    for pat, rep in rules:
        masked = _mask_non_code(src)
        pieces, last, cnt = [], 0, 0
        for m in re.finditer(pat, masked):
            pieces.append(src[last:m.start()])
            pieces.append(m.expand(rep))
            last = m.end()
            cnt += 1
        pieces.append(src[last:])
        src = "".join(pieces)
        counts[pat] = cnt
    return src, counts


DEASYNC_RULES = [
    (r"\basync\s+fn\b", "fn"),
    (r"\basync\s+move\s*\{", "{"),
    (r"\basync\s*\{", "{"),
    (r"\s*\.\s*await\b", ""),
]

HASHMAP_RULES = [
    (r"\buse\s+std::collections::HashMap\s*;", "use crate::verif_map::HashMap;"),
    (r"\bstd::collections::HashMap\b", "crate::verif_map::HashMap"),
    # `std::collections::hash_map::Entry` and friends live next to the map shim
    (r"\bstd::collections::hash_map::", "crate::verif_map::"),
]


def rewrite_file(path: Path, rules: list[tuple[str, str]]) -> dict:
    src = path.read_text()
    new, counts = rewrite_tokens(src, rules)
    path.write_text(new)
    return counts


# --------------------------------------------------------------------------------------------
# Kani
# --------------------------------------------------------------------------------------------

@dataclass
class HarnessSpec:
    name: str
    tier: str = "quick"              # quick harnesses also run in thorough
    obligation: str = ""             # human-readable statement of what is asserted
    timeout_s: int = 900
    mem_gb: int = 14
    functions: list[str] = field(default_factory=list)
    bounds: str = ""
    expect_covers: int | None = None  # if set, that many covers must be SATISFIED
    exploratory: bool = False        # result recorded, never part of the exit status
    qual: str = ""                   # module path prefix ("a::b::") for --exact matching
    solver: str = ""                 # per-harness SAT back end (overrides the group's --solver)
    weight: int = 0                  # `// @weight N`: expected cost; heavier harnesses are started first


@dataclass
class HarnessResult:
    spec: HarnessSpec
    status: str                       # success | failure | inconclusive
    reason: str = ""
    checks_total: int = 0
    checks_failed: int = 0
    failed: list[dict] = field(default_factory=list)
    unwind_failures: int = 0
    covers_total: int = 0
    covers_satisfied: int = 0
    covers: list[dict] = field(default_factory=list)
    verification_time_s: float = 0.0
    wall_s: float = 0.0
    solver_s: float = 0.0
    log_path: str = ""
    stubs: list[str] = field(default_factory=list)
    vccs: int = 0


CHECK_RE = re.compile(
    # (a check id may contain spaces: `<impl SliceIndex<str> for RangeTo<usize>>::index.assertion.1`)
    r"^Check (\d+): ([^\n]+)\n\s+- Status: (\w+)\n\s+- Description: \"(.*?)\"\n(?:\s+- Location: (.*?)\n)?",
    re.M | re.S,
)


def parse_kani_output(text: str) -> dict:
    checks = []
    for m in CHECK_RE.finditer(text):
        checks.append({"id": m.group(2), "status": m.group(3), "description": m.group(4),
                       "location": (m.group(5) or "").strip()})
    res = {"checks": checks}
    m = re.search(r"\*\* (\d+) of (\d+) failed", text)
    if m:
        res["failed_n"], res["total_n"] = int(m.group(1)), int(m.group(2))
    m = re.search(r"\*\* (\d+) of (\d+) cover properties satisfied", text)
    if m:
        res["covers_sat"], res["covers_total"] = int(m.group(1)), int(m.group(2))
    m = re.search(r"VERIFICATION:- (\w+)", text)
    res["verdict"] = m.group(1) if m else None
    m = re.search(r"Verification Time: ([0-9.]+)s", text)
    res["vtime"] = float(m.group(1)) if m else 0.0
    res["solver_s"] = sum(float(x) for x in re.findall(r"Runtime decision procedure: ([0-9.eE+-]+)s", text))
    m = re.search(r"Generated (\d+) VCC\(s\), (\d+) remaining after simplification", text)
    res["vccs"] = int(m.group(2)) if m else 0
    res["stubs"] = re.findall(r"- Stub: (.*)", text)
    res["ice"] = "internal compiler error" in text
    res["compile_error"] = bool(re.search(r"^error(\[E\d+\])?:", text, re.M)) and res["verdict"] is None
    res["cbmc_error"] = "Status: ERROR" in text or "CBMC failed" in text or "out of memory" in text.lower()
    return res


def _limit(mem_gb: int):
    def f():
        lim = mem_gb * (1 << 30)
        resource.setrlimit(resource.RLIMIT_AS, (lim, lim))
        os.setsid()
    return f


def run_kani(pkg_dir: Path, target_dir: Path, spec: HarnessSpec, log_dir: Path,
             extra_args: list[str] | None = None, playback: str | None = None) -> HarnessResult:
    log_dir.mkdir(parents=True, exist_ok=True)
    log_path = log_dir / f"{spec.name}{'.playback' if playback else ''}.log"
    cmd = ["cargo", "kani", "-Z", "stubbing", "--harness", spec.qual + spec.name, "--exact",
           "--target-dir", str(target_dir)]
    if playback:
        # only on a second run of a failed harness: the trace output multiplies formula size and
        # kani-driver's memory use
        cmd += ["-Z", "concrete-playback", f"--concrete-playback={playback}"]
    extra_args = list(extra_args or [])
    if spec.solver:
        # `// @solver cadical|minisat|kissat`: replaces the group's choice for this harness
        while "--solver" in extra_args:
            i = extra_args.index("--solver")
            del extra_args[i:i + 2]
        if spec.solver != "default":
            extra_args += ["--solver", spec.solver]
    cmd += extra_args
    t0 = time.time()
    with open(log_path, "w") as lf:
        p = subprocess.Popen(cmd, cwd=pkg_dir, stdout=lf, stderr=subprocess.STDOUT,
                             env=env_offline(), preexec_fn=_limit(48 if playback else spec.mem_gb))
        try:
            p.wait(timeout=spec.timeout_s * (3 if playback else 1))
            timed_out = False
        except subprocess.TimeoutExpired:
            timed_out = True
            try:
                os.killpg(p.pid, 9)
            except ProcessLookupError:
                pass
            p.wait()
    wall = time.time() - t0
    text = log_path.read_text(errors="replace")
    pr = parse_kani_output(text)
    r = HarnessResult(spec=spec, status="inconclusive", wall_s=wall, log_path=str(log_path))
    r.verification_time_s = pr["vtime"]
    r.solver_s = pr["solver_s"]
    r.stubs = pr["stubs"]
    r.vccs = pr["vccs"]
    checks = pr["checks"]
    r.covers = [c for c in checks if c["status"] in ("SATISFIED", "UNSATISFIABLE", "UNREACHABLE") and ".cover." in c["id"]]
    r.covers_total = pr.get("covers_total", 0)
    r.covers_satisfied = pr.get("covers_sat", 0)
    r.checks_total = pr.get("total_n", 0)
    r.checks_failed = pr.get("failed_n", 0)
    fails = [c for c in checks if c["status"] == "FAILURE"]
    r.unwind_failures = sum(1 for c in fails if "unwinding assertion" in c["description"])
    r.failed = [c for c in fails if "unwinding assertion" not in c["description"]]
    undetermined = [c for c in checks if c["status"] == "UNDETERMINED"]
    if timed_out:
        r.reason = f"timeout after {spec.timeout_s}s (no verdict; never counted as a pass)"
    elif pr["ice"]:
        r.reason = "kani-compiler internal error"
    elif pr["compile_error"]:
        r.reason = "the harness build failed (see log)"
    elif pr["verdict"] is None:
        r.reason = "no verdict in Kani output (crash / out of memory?)"
    elif pr["verdict"] == "SUCCESSFUL":
        if r.covers_total and r.covers_satisfied < r.covers_total:
            r.reason = f"vacuous: only {r.covers_satisfied} of {r.covers_total} reachability witnesses satisfied"
        elif spec.expect_covers is not None and r.covers_satisfied < spec.expect_covers:
            r.reason = f"vacuous: {r.covers_satisfied} witnesses satisfied, {spec.expect_covers} expected"
        else:
            r.status = "success"
    else:  # FAILED
        if pr["cbmc_error"] and not fails:
            r.reason = "CBMC error / out of memory"
        elif r.unwind_failures:
            # CBMC prunes paths behind a failed unwinding assertion: nothing can be concluded.
            r.reason = f"{r.unwind_failures} unwinding assertion(s) failed: bound too small for this source"
            if r.failed:
                # real assertion failures found on un-pruned paths are still counterexamples
                r.status = "failure"
        elif r.failed:
            r.status = "failure"
        elif undetermined:
            r.reason = "undetermined checks"
        else:
            r.reason = "FAILED without a failed check (cover unsatisfied or CBMC error)"
            if r.covers_total and r.covers_satisfied < r.covers_total:
                r.reason = f"vacuous: only {r.covers_satisfied} of {r.covers_total} reachability witnesses satisfied"
    return r


def run_many(pkg_dir: Path, target_dir: Path, specs: list[HarnessSpec], log_dir: Path,
             jobs: int, extra_args: list[str] | None = None) -> list[HarnessResult]:
    results: list[HarnessResult] = []
    if not specs:
        return results
    # Build once up front (dependency graph + the encoding), so that every harness can start at once.
    b = subprocess.run(["cargo", "kani", "-Z", "stubbing", "--only-codegen", "--target-dir", str(target_dir)] ,
                       cwd=pkg_dir, env=env_offline(), stdout=subprocess.PIPE, stderr=subprocess.STDOUT, text=True)
    log_dir.mkdir(parents=True, exist_ok=True)
    (log_dir / "_build.log").write_text(b.stdout)
    if b.returncode != 0:
        reason = "kani-compiler internal error" if "internal compiler error" in b.stdout else "the harness build failed (see log)"
        log("  build of the encoding failed:\n" + "\n".join(b.stdout.splitlines()[-25:]))
        for s in specs:
            results.append(HarnessResult(spec=s, status="inconclusive", reason=reason, log_path=str(log_dir / "_build.log")))
        return results
    with ThreadPoolExecutor(max_workers=max(1, jobs)) as ex:
        futs = [ex.submit(run_kani, pkg_dir, target_dir, s, log_dir, extra_args) for s in specs]
        for f in futs:
            r = f.result()
            _report(r)
            results.append(r)
    return results


def _report(r: HarnessResult) -> None:
    extra = f" [{r.reason}]" if r.reason else ""
    log(f"  harness {r.spec.name}: {r.status.upper()} checks={r.checks_total} failed={r.checks_failed} "
        f"covers={r.covers_satisfied}/{r.covers_total} kani={r.verification_time_s:.1f}s wall={r.wall_s:.1f}s{extra}")
    for c in r.failed[:5]:
        log(f"      failed check: {c['description']} @ {c['location']}")


def extract_playback_test(log_text: str) -> str | None:
    m = re.search(r"Concrete playback unit test for `[^`]+`:\n```\n(.*?)```", log_text, re.S)
    return m.group(1) if m else None


def parse_harness_specs(src: str, defaults: dict | None = None) -> list[HarnessSpec]:
    """Harness metadata lives next to the harness as `// @key value` lines directly above
    `#[kani::proof]`:  @tier, @obligation, @timeout, @mem, @bounds, @functions, @exploratory."""
    specs = []
    lines = src.splitlines()
    for i, ln in enumerate(lines):
        if ln.strip() != "#[kani::proof]":
            continue
        meta = dict(defaults or {})
        j = i - 1
        while j >= 0 and lines[j].strip().startswith("//"):
            m = re.match(r"\s*//+\s*@(\w+)\s*(.*)", lines[j])
            if m:
                k, v = m.group(1), m.group(2).strip()
                meta[k] = (v + " " + meta[k]) if k == "obligation" and k in meta and meta.get("_obl_multi") else v
            j -= 1
        k = i + 1
        name = None
        while k < len(lines):
            m = re.match(r"\s*(?:pub\s+)?fn\s+(\w+)\s*\(", lines[k])
            if m:
                name = m.group(1)
                break
            k += 1
        if not name:
            continue
        specs.append(HarnessSpec(
            name=name,
            tier=meta.get("tier", "debug"),
            obligation=meta.get("obligation", ""),
            timeout_s=int(meta.get("timeout", 900)),
            mem_gb=int(meta.get("mem", 14)),
            functions=[f.strip() for f in meta.get("functions", "").split(",") if f.strip()],
            bounds=meta.get("bounds", ""),
            exploratory=meta.get("exploratory", "") in ("1", "true", "yes"),
            solver=meta.get("solver", ""),
            weight=int(meta.get("weight", 0) or 0),
        ))
    return specs


# --------------------------------------------------------------------------------------------
# known findings
# --------------------------------------------------------------------------------------------

def load_known_findings() -> dict:
    """Parse /verif/known_findings.txt (committed, never written at run time)."""
    p = VERIF / "known_findings.txt"
    out = {"findings": [], "fixed": []}
    if not p.exists():
        return out
    for ln in p.read_text().splitlines():
        ln = ln.strip()
        m = re.match(r"finding:\s+property=(\S+)\s+role=(.*?)\s+::\s+(.*)", ln)
        if m:
            out["findings"].append({"property": m.group(1), "role": m.group(2).strip(), "what": m.group(3).strip()})
            continue
        m = re.match(r"fixed:\s+property=(\S+)\s+(\S+)\s+(.*)", ln)
        if m:
            out["fixed"].append({"property": m.group(1), "commit": m.group(2), "what": m.group(3)})
    return out


# --------------------------------------------------------------------------------------------
# evidence
# --------------------------------------------------------------------------------------------

def write_evidence(pid: str, tier: str, seed: int, results: list[HarnessResult], wall_s: float,
                   assumptions: list[str], extra_cov: dict, violations: int) -> Path:
    decided = [r for r in results if not r.spec.exploratory]
    ok = [r for r in decided if r.status == "success"]
    cov = {
        # model_checking keys: one "state" per symbolic harness pre-state class is not measurable
        # from CBMC, so the generic counts are reported instead (schema: generic_fallback).
        "evaluations": sum(r.checks_total for r in results),
        "distinct_nontrivial": sum(1 for r in results if r.checks_total > 0),
        "rule": ("evaluations = CBMC properties (assertions, panics, overflow, pointer and unwinding checks) "
                 "decided by the SAT back end over all symbolic inputs of the harness; a case = one harness "
                 "(one obligation over all values within its bound); it is non-trivial when CBMC generated at "
                 "least one check for it and every reachability witness (kani::cover!) was satisfied"),
        "obligations": len(decided),
        "discharged": len(ok),
        "inconclusive": [{"harness": r.spec.name, "reason": r.reason} for r in decided if r.status == "inconclusive"],
        "counterexamples": [{"harness": r.spec.name, "failed": r.failed[:5]} for r in results if r.status == "failure"],
        "checker_cmd": "cargo kani -Z stubbing --harness <name> --exact (Kani 0.68.0, CBMC 6.11.0, CaDiCaL)",
        "harnesses": [
            {"name": r.spec.name, "status": r.status, "reason": r.reason, "obligation": r.spec.obligation,
             "bounds": r.spec.bounds, "functions_encoded": r.spec.functions,
             "cbmc_checks": r.checks_total, "cbmc_failed": r.checks_failed,
             "unwinding_assertions_failed": r.unwind_failures,
             "witnesses": f"{r.covers_satisfied}/{r.covers_total}", "vccs_after_simplification": r.vccs,
             "kani_time_s": round(r.verification_time_s, 2), "solver_time_s": round(r.solver_s, 3),
             "wall_s": round(r.wall_s, 1), "stubs": r.stubs, "exploratory": r.spec.exploratory}
            for r in results
        ],
        "solver_time_s": round(sum(r.solver_s for r in results), 3),
        "kani_time_s": round(sum(r.verification_time_s for r in results), 1),
        "samples": [
            {"harness": r.spec.name, "obligation": r.spec.obligation, "bounds": r.spec.bounds,
             "verdict": r.status} for r in results[:6]
        ] or [{"note": "no harness ran"}],
        "exhaustive": False,
    }
    cov.update(extra_cov)
    ev = {
        "property_id": pid,
        "tier": tier,
        "seed": seed,
        "level": "model_checking",
        "coverage": cov,
        "assumptions": assumptions,
        "wall_s": round(wall_s, 1),
        "violations": violations,
    }
    out = VERIF / "evidence" / f"{pid}.json"
    out.parent.mkdir(exist_ok=True)
    out.write_text(json.dumps(ev, indent=1) + "\n")
    return out
