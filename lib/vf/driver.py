"""Generic check driver: prepare the scratch encoding for a property group, run its harnesses,
replay counterexamples, write evidence, compute the exit status."""
from __future__ import annotations

import importlib
import json
import os
import sys
import time
from pathlib import Path

from . import core
from .core import (EXIT_INCONCLUSIVE, EXIT_OK, EXIT_VIOLATION, CACHE, VERIF, HarnessResult,
                   HarnessSpec, Scratch, load_known_findings, log, run_many, write_evidence)


def select(specs: list[HarnessSpec], tier: str, only: list[str] | None) -> list[HarnessSpec]:
    if only:
        sel = [s for s in specs if s.name in only]
    elif tier == "quick":
        sel = [s for s in specs if s.tier == "quick"]
    else:
        sel = [s for s in specs if s.tier in ("quick", "thorough")]
    # heaviest first (stable): a long harness that starts last decides the wall time of the tier
    return sorted(sel, key=lambda s: -s.weight)


def main(argv: list[str]) -> int:
    import argparse
    ap = argparse.ArgumentParser(prog="check")
    ap.add_argument("property")
    ap.add_argument("--tier", default=os.environ.get("VERIF_TIER", "quick"), choices=["quick", "thorough"])
    ap.add_argument("--replay", default=None, help="re-run a stored counterexample against the real code")
    ap.add_argument("--harness", action="append", default=None, help="run only these harnesses (debugging)")
    ap.add_argument("--jobs", type=int, default=None)
    ap.add_argument("--no-evidence", action="store_true")
    ap.add_argument("--warm", action="store_true", help="only compile the encoding (fills the Kani target-dir cache)")
    args = ap.parse_args(argv)
    pid = args.property.upper()
    seed = int(os.environ.get("VERIF_SEED", "0") or 0)
    try:
        mod = importlib.import_module(f"vf.props.{pid.lower()}")
    except ModuleNotFoundError:
        log(f"no check is registered for {pid} (see MANIFEST.json not_applicable)")
        return EXIT_INCONCLUSIVE

    if args.replay:
        return mod.replay(Path(args.replay))

    t0 = time.time()
    log(f"== {pid} tier={args.tier} seed={seed} repo={core.REPO}")
    with Scratch(pid) as sc:
        prep = mod.prepare(sc)                       # builds the encoding from the scratch copy
        if args.warm:
            import subprocess
            rc = 0
            for g in [prep] + list(prep.get("extra_groups") or []):
                p = subprocess.run(["cargo", "kani", "-Z", "stubbing", "--only-codegen", "--target-dir", str(g["target_dir"])],
                                   cwd=g["pkg_dir"], env=core.env_offline(), stdout=subprocess.PIPE, stderr=subprocess.STDOUT, text=True)
                log(p.stdout[-1500:])
                log(f"== {pid}: warm-up build exit {p.returncode}")
                rc = rc or p.returncode
            return 0 if rc == 0 else EXIT_INCONCLUSIVE
        # a property may be decided by several encodings ("groups": own package, target dir, solver
        # arguments); the first one is `prep` itself, further ones are listed under prep["extra_groups"]
        groups = [prep] + list(prep.get("extra_groups") or [])
        jobs = args.jobs or prep.get("jobs", {}).get(args.tier, 8)
        log(f"   encoding regenerated from {core.REPO} in {sc.sync_s:.1f}s; rewrites: {json.dumps(prep.get('rewrites', {}))}")
        log_dir = CACHE / "logs" / pid
        extra = os.environ.get("VERIF_KANI_ARGS", "").split()

        def run_group(gi_g):
            gi, g = gi_g
            specs = select(g["specs"], args.tier, args.harness)
            for s in specs:
                s.group = gi
            g["kani_args"] = list(g.get("kani_args") or []) + extra
            log(f"   group {gi}: {len(specs)} harnesses, {jobs} in parallel")
            return run_many(g["pkg_dir"], g["target_dir"], specs, log_dir, jobs, g["kani_args"])

        from concurrent.futures import ThreadPoolExecutor
        with ThreadPoolExecutor(max_workers=len(groups)) as ex:
            results = [r for rs in ex.map(run_group, enumerate(groups)) for r in rs]

        violations, known_hits, inconclusive = [], [], []
        known = [k for k in load_known_findings().get("findings", []) if k.get("property") == pid]
        for r in results:
            if r.status == "failure":
                gi = getattr(r.spec, "group", 0)
                if gi == 0:
                    out = mod.confirm(sc, prep, r, log_dir)   # replay against the real code
                else:
                    out = groups[gi]["confirm"](sc, groups[gi], r, log_dir)
                # out: {"reproduced": bool|None, "replay": path, "role": str, "detail": str}
                if out.get("reproduced") is True:
                    k = next((k for k in known if k.get("role") == out.get("role")), None)
                    if k is not None:
                        known_hits.append((k, out))
                    else:
                        violations.append((r, out))
                else:
                    inconclusive.append((r, "counterexample did not reproduce against the real code: " + out.get("detail", "")))
            elif r.status == "inconclusive" and not r.spec.exploratory:
                inconclusive.append((r, r.reason))

        wall = time.time() - t0
        if not args.no_evidence and not args.harness:
            extra = dict(prep.get("evidence_extra", {}))
            extra["rewrites_applied"] = prep.get("rewrites", {})
            extra["encoding_source"] = f"rsync of {core.REPO} working tree at run time"
            extra["traces_validated_against_impl"] = len(violations) + len(known_hits)
            extra["known_findings_seen"] = [k["role"] for k, _ in known_hits]
            ev = write_evidence(pid, args.tier, seed, results, wall, prep.get("assumptions", []), extra, len(violations))
            log(f"   evidence: {ev}")

    for k, out in known_hits:
        print(f"KNOWN-FINDING: property={pid} {k.get('what', k.get('role'))}", flush=True)
    for r, out in violations:
        print(f"VIOLATION property={pid} replay={out.get('replay')}", flush=True)
        log(f"   ({r.spec.name}: {out.get('detail', '')})")
    for r, why in inconclusive:
        log(f"INCONCLUSIVE property={pid} harness={r.spec.name}: {why}")
    ok = sum(1 for r in results if r.status == "success")
    log(f"== {pid}: {ok}/{len(results)} harnesses successful, {len(violations)} violation(s), "
        f"{len(known_hits)} known finding(s), {len(inconclusive)} inconclusive, wall {time.time() - t0:.0f}s")
    if violations:
        return EXIT_VIOLATION
    if inconclusive:
        return EXIT_INCONCLUSIVE
    return EXIT_OK
