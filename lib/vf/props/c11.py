"""C11 (session state carries over exactly): real pavex_session sources, de-asynced and re-rooted on
contract shims; refinement harnesses in /verif/harness/session/c11.rs."""
from __future__ import annotations

from pathlib import Path

from .. import core, session
from ..core import CACHE, VERIF, HarnessResult, Scratch, log, parse_harness_specs

PID = "C11"
HARNESS = VERIF / "harness" / "session" / "c11.rs"


def prepare(sc: Scratch) -> dict:
    prep = session.prepare_session(sc, [("session_.rs", "verif_c11", str(HARNESS))])
    specs = [s for s in parse_harness_specs(HARNESS.read_text()) if s.name.startswith(("c11_", "dbg_"))]
    for s in specs:
        s.qual = "session_::verif_c11::"
    prep.update({
        "target_dir": CACHE / "target-session",
        "specs": specs,
        # MiniSat decides these pointer-heavy, arithmetic-light instances 4-10x faster than Kani's default CaDiCaL (measured)
        "kani_args": ["--solver", "minisat"],
        "jobs": {"quick": 13, "thorough": 8},
        "assumptions": session.SESSION_SHIM_ASSUMPTIONS,
        "evidence_extra": {
            "encoded_files": ["runtime/sessions/pavex_session/src/session_.rs", "incoming.rs", "wire.rs", "store_.rs", "id.rs", "config/*.rs", "lib.rs"],
            "engine": "Kani 0.68.0 -> CBMC 6.11.0 (CaDiCaL) over the MIR of the real pavex_session sources (de-asynced) against contract shims",
        },
    })
    return prep


def confirm(sc: Scratch, prep: dict, r: HarnessResult, log_dir: Path) -> dict:
    return session.confirm_session(PID, sc, prep, r, log_dir, "verif_c11")


def replay(path: Path) -> int:
    return session.replay_script(PID, path)
