"""C12 (session cookies never unprotected; attributes): the real finalize_session middleware on top
of the C11 encoding; harnesses in /verif/harness/session/c12.rs."""
from __future__ import annotations

from pathlib import Path

from .. import core, session
from ..core import CACHE, VERIF, HarnessResult, Scratch, parse_harness_specs

PID = "C12"
H11 = VERIF / "harness" / "session" / "c11.rs"
H12 = VERIF / "harness" / "session" / "c12.rs"


def prepare(sc: Scratch) -> dict:
    prep = session.prepare_session(sc, [("session_.rs", "verif_c11", str(H11)), ("session_.rs", "verif_c12", str(H12))])
    specs = [s for s in parse_harness_specs(H12.read_text()) if s.name.startswith(("c12_", "dbg_"))]
    for s in specs:
        s.qual = "session_::verif_c12::"
    prep.update({
        "target_dir": CACHE / "target-session12",
        "specs": specs,
        # MiniSat decides these pointer-heavy, arithmetic-light instances 4-10x faster than Kani's default CaDiCaL (measured)
        "kani_args": ["--solver", "minisat"],
        "jobs": {"quick": 8, "thorough": 8},
        "assumptions": session.SESSION_SHIM_ASSUMPTIONS + [
            "Processor::will_encrypt / will_sign are two arbitrary booleans (encrypt implies not-just-sign); biscotti's crypto is taken at its word",
            "the Debug-redaction clause of C12 is outside the claim (core::fmt machinery is beyond CBMC here)",
        ],
        "evidence_extra": {
            "encoded_files": ["runtime/sessions/pavex_session/src/middleware.rs", "session_.rs", "config/cookie.rs", "wire.rs", "store_.rs"],
            "engine": "Kani 0.68.0 -> CBMC 6.11.0 (CaDiCaL) over the MIR of the real pavex_session sources (de-asynced) against contract shims",
        },
    })
    return prep


def confirm(sc: Scratch, prep: dict, r: HarnessResult, log_dir: Path) -> dict:
    return session.confirm_session(PID, sc, prep, r, log_dir, "verif_c12")


def replay(path: Path) -> int:
    return session.replay_script(PID, path)
