"""C13 (session stores behave like a map with expiry): the real in-memory store, de-asynced, with an
uncontended lock shim and a symbolic clock; harnesses in /verif/harness/memstore/c13.rs."""
from __future__ import annotations

from pathlib import Path

from .. import core, session
from ..core import CACHE, VERIF, HarnessResult, Scratch, parse_harness_specs

PID = "C13"
HARNESS = VERIF / "harness" / "memstore" / "c13.rs"


def prepare(sc: Scratch) -> dict:
    prep = session.prepare_memstore(sc, HARNESS)
    specs = [s for s in parse_harness_specs(HARNESS.read_text()) if s.name.startswith(("c13_", "dbg_"))]
    for s in specs:
        s.qual = "verif_c13::"
    prep.update({
        "target_dir": CACHE / "target-memstore",
        "specs": specs,
        # MiniSat decides these pointer-heavy, arithmetic-light instances 4-10x faster than Kani's default CaDiCaL (measured)
        "kani_args": ["--solver", "minisat"],
        "jobs": {"quick": 6, "thorough": 7},
        "assumptions": [
            "de-async rewrite (async fn -> fn, .await removed, #[async_trait] = identity): the store's operations never suspend once the lock is uncontended",
            "tokio::sync::Mutex shim: an uncontended lock; the concurrency clause of C13 (linearizability under several tasks) is outside the claim - Kani has no concurrency model; the code's argument is one lock per operation",
            "pavex::time::Timestamp shim: whole seconds on a clock the harness controls; time stands still during one operation and advances arbitrarily between two",
            "std::collections::HashMap -> verif_map::HashMap (2 slots): at most 2 records, ids {A,B}; hashing and larger stores are outside",
            "serde_json shim Value = Null | Bool | Number; 'any JSON, any unicode' states are outside the bound (states are stored and returned by move/clone, never inspected by the store)",
            "the SQLite store (SQL behind sqlx/FFI) is outside the claim",
            "Kani 0.68 / CBMC 6.11 / CaDiCaL trusted; results hold within the stated bounds only",
        ],
        "evidence_extra": {
            "encoded_files": ["runtime/sessions/pavex_session_memory_store/src/lib.rs", "runtime/sessions/pavex_session/src/store_.rs"],
            "engine": "Kani 0.68.0 -> CBMC 6.11.0 (CaDiCaL) over the MIR of the real in-memory store (de-asynced) against contract shims",
        },
    })
    return prep


def confirm(sc: Scratch, prep: dict, r: HarnessResult, log_dir: Path) -> dict:
    return session.confirm_memstore(PID, sc, prep, r, log_dir)


def replay(path: Path) -> int:
    return session.replay_script(PID, path, "memstore_native")
