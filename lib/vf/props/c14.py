"""C14 (a buffered request body never exceeds the configured size limit): the real
runtime/pavex/src/request/body/buffered_body.rs (de-asynced) with the real limit.rs, errors.rs,
request_head.rs, unit.rs and the real `ubyte`/`thiserror` crates, path-included into a small root
crate and compiled against contract shims of bytes / http / http-body / http-body-util / hyper
(/verif/shims/c14); harnesses in /verif/harness/body/c14.rs.

Counterexamples are replayed natively against the REAL pavex crate (real bytes, http, http-body-util,
tokio): a replay module is appended to the pristine scratch copy of buffered_body.rs and run with
`cargo test -p pavex --lib`."""
from __future__ import annotations

import hashlib
import json
import os
import re
import shutil
import subprocess
from pathlib import Path

from .. import core, session
from ..core import CACHE, VERIF, HarnessResult, Scratch, env_offline, log, parse_harness_specs, rewrite_tokens

PID = "C14"
HDIR = VERIF / "harness" / "body"
HARNESS = HDIR / "c14.rs"
BODY_REL = "runtime/pavex/src/request/body"
HEAD_REL = "runtime/pavex/src/request/request_head.rs"
UNIT_REL = "runtime/pavex/src/unit.rs"


def prepare(sc: Scratch) -> dict:
    pkg = sc.root / "h_body"
    if pkg.exists():
        shutil.rmtree(pkg)
    pkg.mkdir(parents=True)
    hcopy = pkg / "c14.rs"
    shutil.copy(HARNESS, hcopy)
    shutil.copy(VERIF / "harness" / "nd.rs", pkg / "nd.rs")
    shutil.copy(HDIR / "raw_body.rs", pkg / "raw_body.rs")
    # de-asynced copy of the real buffered_body.rs; the harness is attached as a child module so that it
    # can also reach the private `_extract_with_limit`
    enc = pkg / "buffered_body.rs"
    src = (sc.repo / BODY_REL / "buffered_body.rs").read_text()
    # the file's own #[cfg(test)] module (tokio/insta tests) must not join the cfg(test) build that the
    # native search uses to make a counterexample concrete
    new, counts = rewrite_tokens(src, core.DEASYNC_RULES + [(r"#\[cfg\(test\)\]", "#[cfg(any())]")])
    masked = core._mask_non_code(new)
    if re.search(r"\basync\b|\.\s*await\b", masked):
        raise core.RewriteError("residual async/.await in buffered_body.rs after the de-async rewrite")
    enc.write_text(new + f'\n#[cfg(kani)]\n#[path = "{hcopy}"]\nmod verif_c14;\n')
    root = pkg / "root.rs"
    root.write_text(
        "#![allow(static_mut_refs, dead_code, unused_imports)]\n"
        "// stand-in for pavex::Response (only named by the error -> response conversions of errors.rs)\n"
        "pub struct Response(pub u16);\n"
        "impl Response {\n"
        "    pub fn payload_too_large() -> Self { Response(413) }\n"
        "    pub fn internal_server_error() -> Self { Response(500) }\n"
        "    pub fn unsupported_media_type() -> Self { Response(415) }\n"
        "    pub fn bad_request() -> Self { Response(400) }\n"
        "    pub fn set_typed_body<T>(self, _b: T) -> Self { self }\n"
        "}\n"
        f'#[path = "{sc.repo / UNIT_REL}"]\npub mod unit;\n'
        "pub mod request {\n"
        f'    #[path = "{sc.repo / HEAD_REL}"]\n    mod request_head;\n'
        "    pub use request_head::RequestHead;\n"
        "    pub mod body {\n"
        f'        #[path = "{enc}"]\n        mod buffered_body;\n'
        f'        #[path = "{sc.repo / BODY_REL / "errors.rs"}"]\n        pub mod errors;\n'
        f'        #[path = "{sc.repo / BODY_REL / "limit.rs"}"]\n        mod limit;\n'
        f'        #[path = "{pkg / "raw_body.rs"}"]\n        pub mod raw_body;\n'
        "        pub use buffered_body::BufferedBody;\n"
        "        pub use limit::BodySizeLimit;\n"
        "        pub use raw_body::RawIncomingBody;\n"
        "    }\n"
        "}\n")
    toml = (HDIR / "Cargo.toml.in").read_text()
    (pkg / "Cargo.toml").write_text(toml.replace("@ROOT@", str(root)).replace("@SHIMS@", str(VERIF / "shims")))
    specs = [s for s in parse_harness_specs(HARNESS.read_text()) if s.name.startswith(("c14_", "dbg_"))]
    for s in specs:
        s.qual = "request::body::buffered_body::verif_c14::"
    return {
        "pkg_dir": pkg,
        "target_dir": CACHE / "target-body",
        "specs": specs,
        "kani_args": [],
        "jobs": {"quick": 4, "thorough": 4},
        "rewrites": {"buffered_body.rs": {"de-async": counts},
                     "path_included_unmodified": [f"{BODY_REL}/errors.rs", f"{BODY_REL}/limit.rs", HEAD_REL, UNIT_REL],
                     "replaced_by_a_stand_in": [f"{BODY_REL}/raw_body.rs (wrapper around hyper::body::Incoming)"]},
        "assumptions": [
            "de-async rewrite of buffered_body.rs (async fn -> fn, .await removed): the body is an in-memory sequence of frames, nothing suspends",
            "http-body / http-body-util shims: Body = frames in order, then end, an error ends the body; Limited passes frames while the running total stays <= limit and answers LengthLimitError for the first frame that would exceed it; collect() concatenates data frames and returns the body's error as is (documented contracts; the real crates and hyper's framing are the trusted base)",
            "bytes shim: heap-free buffer of <= 12 bytes; http shim: 2-slot header map, HeaderValue::to_str succeeds iff all bytes are visible ASCII or tab",
            "RawIncomingBody (pin-project wrapper around hyper::body::Incoming) is replaced by a frame sequence chosen by the solver",
            "std::fmt::format stubbed (error messages are not the subject)",
            "real code included: core::str::parse::<usize>, ubyte::ByteUnit comparisons and conversions, thiserror-derived From impls",
            "Kani 0.68 / CBMC 6.11 trusted; results hold within the stated bounds only (<= 3 frames of <= 3 bytes, Content-Length value of <= 4 bytes)",
        ],
        "evidence_extra": {
            "encoded_files": [f"{BODY_REL}/buffered_body.rs", f"{BODY_REL}/limit.rs", f"{BODY_REL}/errors.rs", HEAD_REL],
            "engine": "Kani 0.68.0 -> CBMC 6.11.0 over the MIR of the real body extractor (de-asynced) against contract shims",
            "outside_the_claim": ["http_body_util::Limited's own enforcement", "hyper's chunked decoding", "JSON / form parsing of the buffered bytes",
                                  "bodies longer than 9 bytes / more than 3 frames"],
        },
    }


# ---------------------------------------------------------------------------------------------
# native replay against the real pavex crate
# ---------------------------------------------------------------------------------------------

REPLAY_MOD = (HDIR / "replay_native.rs")


def _native_replay(sc: Scratch, script_path: Path, log_path: Path) -> tuple[bool | None, str]:
    """Append the replay module to the PRISTINE scratch copy of the real buffered_body.rs and run it as a
    unit test of the real pavex crate. True = the real code misbehaves on the script."""
    target = sc.repo / BODY_REL / "buffered_body.rs"
    src = target.read_text()
    if "mod verif_replay_c14" not in src:
        target.write_text(src + "\n" + REPLAY_MOD.read_text())
    env = env_offline()
    env["VERIF_C14_SCRIPT"] = str(Path(script_path).resolve())
    env["CARGO_TARGET_DIR"] = str(CACHE / "target-native-pavex")
    env["RUSTFLAGS"] = "--cfg verif_replay"      # the same flags as the C15 replays: one shared native build
    p = subprocess.run(["cargo", "test", "--offline", "-p", "pavex", "--lib", "verif_replay_c14", "--", "--nocapture", "--test-threads", "1"],
                       cwd=sc.repo, env=env, stdout=subprocess.PIPE, stderr=subprocess.STDOUT, text=True)
    log_path.parent.mkdir(parents=True, exist_ok=True)
    log_path.write_text(p.stdout)
    m = re.search(r"C14-REPLAY (REPRODUCED|NOT-REPRODUCED|MALFORMED)(.*)$", p.stdout, re.M)
    if not m:
        return None, "the native replay did not run (see %s)" % log_path
    if m.group(1) == "REPRODUCED":
        return True, m.group(0)
    if m.group(1) == "NOT-REPRODUCED":
        return False, m.group(0)
    return None, m.group(0)


def confirm(sc: Scratch, prep: dict, r: HarnessResult, log_dir: Path) -> dict:
    role = f"{r.spec.name}: " + "; ".join(sorted({c["description"] for c in r.failed}))
    finds = session.native_search(prep, r.spec.name, log_dir / f"{r.spec.name}.native-search.log", int(os.environ.get("VERIF_SEED", "0") or 0))
    rep_dir = VERIF / "replays" / "generated" / PID
    rep_dir.mkdir(parents=True, exist_ok=True)
    first = None
    for tr in finds:
        recs = [l for l in tr if l.get("kind") == "c14"]
        if not recs:
            continue
        script = {k: recs[0][k] for k in ("limit", "header", "other_first", "frames", "error_at", "trailers")}
        script["_origin"] = {"harness": r.spec.name, "failed": role}
        h = hashlib.sha256(json.dumps(script, sort_keys=True).encode()).hexdigest()[:12]
        rep = rep_dir / f"{r.spec.name}-{h}.json"
        rep.write_text(json.dumps(script, indent=1) + "\n")
        first = first or rep
        ok, detail = _native_replay(sc, rep, log_dir / f"{r.spec.name}.native.log")
        if ok is True:
            return {"reproduced": True, "replay": str(rep), "role": role, "detail": detail}
        if rep != first:
            rep.unlink(missing_ok=True)
    # a budget above the limit only shows on a body between the two sizes: deliver N + 1 bytes in one frame,
    # without a Content-Length header (N taken from the concrete inputs the native search found)
    if "byte budget" in role:
        for tr in finds:
            recs = [l for l in tr if l.get("kind") == "c14" and isinstance(l.get("limit"), int)]
            if not recs or recs[0]["limit"] + 1 > (1 << 21):
                continue
            n = recs[0]["limit"]
            script = {"limit": n, "header": None, "other_first": False, "frames": [[97] * (n + 1)], "error_at": None, "trailers": False,
                      "_origin": {"harness": r.spec.name, "failed": role, "note": "body of limit + 1 bytes"}}
            h = hashlib.sha256(json.dumps(script, sort_keys=True).encode()).hexdigest()[:12]
            rep = rep_dir / f"{r.spec.name}-{h}.json"
            rep.write_text(json.dumps(script) + "\n")
            ok, detail = _native_replay(sc, rep, log_dir / f"{r.spec.name}.native.log")
            if ok is True:
                return {"reproduced": True, "replay": str(rep), "role": role, "detail": detail}
            rep.unlink(missing_ok=True)
    if first is not None:
        return {"reproduced": False, "replay": str(first), "role": role,
                "detail": f"{len(finds)} concrete failing inputs of the shim build do not misbehave on the real crate"}
    return {"reproduced": None, "role": role, "detail": "native search found no failing input"}


def replay(path: Path) -> int:
    with Scratch(PID + "-replay") as sc:
        ok, detail = _native_replay(sc, path, CACHE / "logs" / PID / "replay.native.log")
    log(f"replay {path}: {detail}")
    if ok is True:
        print(f"VIOLATION property={PID} replay={path}", flush=True)
        return 1
    return 0 if ok is False else 2
