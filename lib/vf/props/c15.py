"""C15 (typed path parameters): real runtime/pavex crate, no shims; the harness module is appended to
the scratch copy of request/path/deserializer.rs."""
from __future__ import annotations

import hashlib
import re
import subprocess
from pathlib import Path

from .. import core
from ..core import CACHE, VERIF, HarnessResult, Scratch, env_offline, log, parse_harness_specs

PID = "C15"
HARNESS_SRC = VERIF / "harness" / "C15" / "verif_harness.rs"
TARGET_REL = "runtime/pavex/src/request/path/deserializer.rs"

ASSUMPTIONS = [
    "decoded parameter values are ASCII (bytes < 128); multi-byte UTF-8 is outside the bound",
    "percent-decoding (percent_encoding crate, via EncodedParamValue::decode) is outside the encoding: the harness starts where PathParams::extract hands the decoded (name, value) list to PathDeserializer::new",
    "std::fmt::format is stubbed to return an empty String (error *messages* are not the subject; error *kinds* are asserted)",
    "serde's derive output and core::str::FromStr for integers/bool/char are part of the encoded code, not stubs",
    "query parameters, URL-encoded forms and JSON bodies (serde_html_form / serde_json parsers) are outside the claim",
    "Kani 0.68 / CBMC 6.11 / CaDiCaL are trusted; all results hold only within each harness's stated bound",
]


def prepare(sc: Scratch) -> dict:
    target = sc.repo / TARGET_REL
    src = target.read_text()
    hsrc = HARNESS_SRC.read_text()
    target.write_text(src + "\n" + hsrc)
    specs = parse_harness_specs(hsrc)
    for s in specs:
        s.qual = "request::path::deserializer::verif_harness::"
    return {
        "pkg_dir": sc.repo / "runtime" / "pavex",
        "target_dir": CACHE / "target-pavex",
        "specs": specs,
        "jobs": {"quick": 10, "thorough": 8},
        "rewrites": {"appended_harness_module": TARGET_REL, "px_workspace_hack": "hakari section emptied"},
        "assumptions": ASSUMPTIONS,
        "evidence_extra": {
            "encoded_files": [TARGET_REL, "runtime/pavex/src/request/path/errors.rs"],
            "engine": "Kani 0.68.0 -> CBMC 6.11.0 (CaDiCaL) over the MIR of the real pavex crate",
            "outside_the_claim": ["percent-decoding", "multi-byte UTF-8", "query/form/JSON extractors",
                                  "values longer than the per-harness byte bound"],
        },
    }


def _run_playback(pkg_dir: Path, test_filter: str, log_path: Path, release: bool = False) -> tuple[bool | None, str]:
    """Run the concrete-playback unit test natively against the real crate.
    True = the test fails (the counterexample reproduces); False = it passes; None = could not run."""
    cmd = ["cargo", "kani", "playback", "-Z", "concrete-playback"]
    if release:
        cmd += ["--release"]
    cmd += ["--", test_filter]
    p = subprocess.run(cmd, cwd=pkg_dir, env=env_offline(), stdout=subprocess.PIPE, stderr=subprocess.STDOUT, text=True)
    log_path.write_text(p.stdout)
    m = re.search(r"test result: (\w+)\. (\d+) passed; (\d+) failed", p.stdout)
    if not m:
        return None, "playback did not run (see %s)" % log_path
    passed, failed = int(m.group(2)), int(m.group(3))
    if failed > 0:
        return True, f"native playback fails ({failed} test)"
    if passed > 0:
        return False, "native playback passes"
    return None, "no playback test matched"


def confirm(sc: Scratch, prep: dict, r: HarnessResult, log_dir: Path) -> dict:
    """Replay the solver's assignment natively against the real crate (dev profile)."""
    pkg = prep["pkg_dir"]
    # 1. ask Kani for the concrete values as a unit test
    r2 = core.run_kani(pkg, prep["target_dir"], r.spec, log_dir, prep.get("kani_args"), playback="print")
    text = Path(r2.log_path).read_text(errors="replace")
    tests = [t for t in re.findall(r"Concrete playback unit test for `[^`]+`:\n```\n(.*?)```", text, re.S) if "Check for `cover`" not in t]
    test = tests[0] if tests else None
    role = f"{r.spec.name}: " + "; ".join(sorted({c["description"] for c in r.failed}))
    if not test:
        return {"reproduced": None, "role": role, "detail": "Kani produced no concrete playback test"}
    h = hashlib.sha256(test.encode()).hexdigest()[:12]
    rep_dir = VERIF / "replays" / "generated" / PID
    rep_dir.mkdir(parents=True, exist_ok=True)
    rep = rep_dir / f"{r.spec.name}-{h}.rs"
    rep.write_text(f"// replay for {PID} harness {r.spec.name}\n// failed: {role}\n// harness={r.spec.name}\n" + test)
    ok, detail = _apply_and_play(sc, test, log_dir / f"{r.spec.name}.native.log")
    return {"reproduced": ok, "replay": str(rep), "role": role, "detail": detail}


def _apply_and_play(sc: Scratch, test: str, log_path: Path) -> tuple[bool | None, str]:
    target = sc.repo / TARGET_REL
    src = target.read_text()
    # the playback test must live inside the harness module (it calls the private harness fn)
    idx = src.rfind("}")
    src = src[:idx] + "\n" + test + "\n}\n"
    target.write_text(src)
    m = re.search(r"fn (kani_concrete_playback_\w+)", test)
    name = m.group(1) if m else "kani_concrete_playback"
    return _run_playback(sc.repo / "runtime" / "pavex", name, log_path)


def replay(path: Path) -> int:
    text = path.read_text()
    test = "\n".join(l for l in text.splitlines() if not l.startswith("// "))
    with Scratch(PID + "-replay") as sc:
        prepare(sc)
        ok, detail = _apply_and_play(sc, test, CACHE / "logs" / PID / "replay.native.log")
    log(f"replay {path}: {detail}")
    if ok is True:
        print(f"VIOLATION property={PID} replay={path}", flush=True)
        return 1
    return 0 if ok is False else 2
