"""C15 (typed path parameters): real runtime/pavex crate, no shims; the harness module is appended to
the scratch copy of request/path/deserializer.rs."""
from __future__ import annotations

import hashlib
import os
import re
import subprocess
from pathlib import Path

from .. import core
from ..core import CACHE, VERIF, HarnessResult, Scratch, env_offline, log, parse_harness_specs

PID = "C15"
HARNESS_SRC = VERIF / "harness" / "C15" / "verif_harness.rs"
TARGET_REL = "runtime/pavex/src/request/path/deserializer.rs"

ASSUMPTIONS = [
    "decoded parameter values are ASCII (bytes < 128); multi-byte UTF-8 is outside the bound",
    "percent-decoding (percent_encoding crate, via EncodedParamValue::decode) is outside the encoding: the harness starts where PathParams::extract hands the decoded (name, value) list to PathDeserializer::new",
    "std::fmt::format is stubbed to return an empty String (error *messages* are not the subject; error *kinds* are asserted)",
    "serde's derive output and core::str::FromStr for integers/bool/char are part of the encoded code, not stubs",
    "query parameters, URL-encoded forms and JSON bodies (serde_html_form / serde_json parsers) are outside the claim",
    "Kani 0.68 / CBMC 6.11 / CaDiCaL are trusted; all results hold only within each harness's stated bound",
]


def prepare(sc: Scratch) -> dict:
    target = sc.repo / TARGET_REL
    src = target.read_text()
    hsrc = HARNESS_SRC.read_text()
    target.write_text(src + "\n" + hsrc)
    specs = parse_harness_specs(hsrc)
    for s in specs:
        s.qual = "request::path::deserializer::verif_harness::"
    xg = prepare_extract_group(sc)
    bg = prepare_bodyq_group(sc)
    return {
        "extra_groups": [xg, bg],
        "pkg_dir": sc.repo / "runtime" / "pavex",
        "target_dir": CACHE / "target-pavex",
        "specs": specs,
        "jobs": {"quick": 6, "thorough": 6},
        "rewrites": {"appended_harness_module": TARGET_REL, "px_workspace_hack": "hakari section emptied"},
        "assumptions": ASSUMPTIONS,
        "evidence_extra": {
            "encoded_files": [TARGET_REL, "runtime/pavex/src/request/path/errors.rs"],
            "engine": "Kani 0.68.0 -> CBMC 6.11.0 (CaDiCaL) over the MIR of the real pavex crate",
            "outside_the_claim": ["percent-decoding", "multi-byte UTF-8", "query/form/JSON extractors",
                                  "values longer than the per-harness byte bound"],
        },
    }


# ---------------------------------------------------------------------------------------------
# second group: the PathParams::extract stage (percent-decoding), real request/path/*.rs against a
# matchit shim (only the parameter list of a match), harness in /verif/harness/C15x
# ---------------------------------------------------------------------------------------------
XDIR = VERIF / "harness" / "C15x"
PATH_REL = "runtime/pavex/src/request/path"


def prepare_extract_group(sc: Scratch) -> dict:
    import shutil
    pkg = sc.root / "h_c15x"
    if pkg.exists():
        shutil.rmtree(pkg)
    pkg.mkdir(parents=True)
    hcopy = pkg / "c15x.rs"
    shutil.copy(XDIR / "c15x.rs", hcopy)
    root = pkg / "root.rs"
    d = sc.repo / PATH_REL
    root.write_text(
        "#![allow(dead_code, unused_imports)]\n"
        "// stand-in for pavex::Response (only named by the error -> response conversions of errors.rs)\n"
        "pub struct Response(pub u16);\n"
        "impl Response {\n"
        "    pub fn bad_request() -> Self { Response(400) }\n"
        "    pub fn internal_server_error() -> Self { Response(500) }\n"
        "    pub fn set_typed_body<T>(self, _b: T) -> Self { self }\n"
        "}\n"
        "pub mod request {\n"
        "    pub mod path {\n"
        f'        #[path = "{d / "deserializer.rs"}"]\n        mod deserializer;\n'
        f'        #[path = "{d / "errors.rs"}"]\n        pub mod errors;\n'
        f'        #[path = "{d / "path_params.rs"}"]\n        mod path_params;\n'
        f'        #[path = "{d / "raw_path_params.rs"}"]\n        mod raw_path_params;\n'
        "        pub use path_params::PathParams;\n"
        "        pub use raw_path_params::{EncodedParamValue, RawPathParams, RawPathParamsIter};\n"
        f'        #[cfg(kani)]\n        #[path = "{hcopy}"]\n        mod verif_c15x;\n'
        "    }\n"
        "}\n")
    toml = (XDIR / "Cargo.toml.in").read_text()
    (pkg / "Cargo.toml").write_text(toml.replace("@ROOT@", str(root)).replace("@SHIMS@", str(VERIF / "shims")))
    specs = parse_harness_specs((XDIR / "c15x.rs").read_text())
    for s in specs:
        s.qual = "request::path::verif_c15x::"
    import shutil as _sh
    _sh.copy(VERIF / "harness" / "nd.rs", pkg / "nd.rs")
    return {"pkg_dir": pkg, "target_dir": CACHE / "target-c15x", "specs": specs, "kani_args": [], "confirm": confirm_extract}


# ---------------------------------------------------------------------------------------------
# third group: the body and query extractors (JsonBody, UrlEncodedBody, QueryParams): real
# request/body/{json,url_encoded,errors}.rs and request/query/*.rs with the real `mime` crate against
# opaque-parser shims of serde_json / serde_html_form / form_urlencoded / serde_path_to_error
# ---------------------------------------------------------------------------------------------
BDIR = VERIF / "harness" / "bodyq"
BODY_REL = "runtime/pavex/src/request/body"
QUERY_REL = "runtime/pavex/src/request/query"


def prepare_bodyq_group(sc: Scratch) -> dict:
    import shutil
    pkg = sc.root / "h_c15b"
    if pkg.exists():
        shutil.rmtree(pkg)
    pkg.mkdir(parents=True)
    hcopy = pkg / "c15b.rs"
    shutil.copy(BDIR / "c15b.rs", hcopy)
    shutil.copy(VERIF / "harness" / "nd.rs", pkg / "nd.rs")
    shutil.copy(VERIF / "harness" / "body" / "raw_body.rs", pkg / "raw_body.rs")
    counts = {}
    # copies: the files' own #[cfg(test)] modules (insta snapshots) must not join the cfg(test) build of the
    # native search; buffered_body.rs is de-asynced as in the C14 encoding (only its type is used here)
    for rel, name, rules in ((BODY_REL, "buffered_body.rs", core.DEASYNC_RULES), (BODY_REL, "json.rs", []), (BODY_REL, "url_encoded.rs", []),
                             (QUERY_REL, "query_params.rs", [])):
        src = (sc.repo / rel / name).read_text()
        new, c = core.rewrite_tokens(src, rules + [(r"#\[cfg\(test\)\]", "#[cfg(any())]")])
        if name == "buffered_body.rs" and re.search(r"\basync\b|\.\s*await\b", core._mask_non_code(new)):
            raise core.RewriteError("residual async/.await in buffered_body.rs after the de-async rewrite")
        (pkg / name).write_text(new)
        counts[name] = c
    root = pkg / "root.rs"
    root.write_text(
        "#![allow(static_mut_refs, dead_code, unused_imports)]\n"
        "// stand-in for pavex::Response (only named by the error -> response conversions of errors.rs)\n"
        "pub struct Response(pub u16);\n"
        "impl Response {\n"
        "    pub fn payload_too_large() -> Self { Response(413) }\n"
        "    pub fn internal_server_error() -> Self { Response(500) }\n"
        "    pub fn unsupported_media_type() -> Self { Response(415) }\n"
        "    pub fn bad_request() -> Self { Response(400) }\n"
        "    pub fn set_typed_body<T>(self, _b: T) -> Self { self }\n"
        "}\n"
        f'#[path = "{sc.repo / "runtime/pavex/src/unit.rs"}"]\npub mod unit;\n'
        "pub mod request {\n"
        f'    #[path = "{sc.repo / "runtime/pavex/src/request/request_head.rs"}"]\n    mod request_head;\n'
        "    pub use request_head::RequestHead;\n"
        "    pub mod body {\n"
        f'        #[path = "{pkg / "buffered_body.rs"}"]\n        mod buffered_body;\n'
        f'        #[path = "{sc.repo / BODY_REL / "errors.rs"}"]\n        pub mod errors;\n'
        f'        #[path = "{sc.repo / BODY_REL / "limit.rs"}"]\n        mod limit;\n'
        f'        #[path = "{pkg / "raw_body.rs"}"]\n        pub mod raw_body;\n'
        f'        #[path = "{pkg / "json.rs"}"]\n        mod json;\n'
        f'        #[path = "{pkg / "url_encoded.rs"}"]\n        mod url_encoded;\n'
        "        pub use buffered_body::BufferedBody;\n"
        "        pub use json::JsonBody;\n"
        "        pub use limit::BodySizeLimit;\n"
        "        pub use raw_body::RawIncomingBody;\n"
        "        pub use url_encoded::UrlEncodedBody;\n"
        "    }\n"
        "    pub mod query {\n"
        f'        #[path = "{sc.repo / QUERY_REL / "errors.rs"}"]\n        pub mod errors;\n'
        f'        #[path = "{pkg / "query_params.rs"}"]\n        mod query_params;\n'
        "        pub use query_params::QueryParams;\n"
        "    }\n"
        "}\n"
        f'#[cfg(kani)]\n#[path = "{hcopy}"]\nmod verif_c15b;\n')
    toml = (BDIR / "Cargo.toml.in").read_text()
    if os.environ.get("VERIF_C15B_REAL_MIME"):       # probe only: the real mime crate instead of the shim
        toml = toml.replace('mime = { path = "@SHIMS@/c15b/mime" }', 'mime = "0.3"')
    (pkg / "Cargo.toml").write_text(toml.replace("@ROOT@", str(root)).replace("@SHIMS@", str(VERIF / "shims")))
    specs = parse_harness_specs((BDIR / "c15b.rs").read_text())
    for s in specs:
        s.qual = "verif_c15b::"
    return {"pkg_dir": pkg, "target_dir": CACHE / "target-c15b", "specs": specs, "kani_args": [], "confirm": confirm_bodyq,
            "rewrites": {"c15b": counts}}


def _native_replay_bodyq(sc: Scratch, script_path: Path, log_path: Path) -> tuple[bool | None, str]:
    """Append the replay module to the scratch copy of the real request/body/json.rs and run it as a unit test
    of the real pavex crate (real mime, serde_json, serde_html_form). True = the real code misbehaves."""
    target = sc.repo / BODY_REL / "json.rs"
    src = target.read_text()
    if "mod verif_replay_c15b" not in src:
        target.write_text(src + "\n" + (BDIR / "replay_native.rs").read_text())
    env = env_offline()
    env["VERIF_C15B_SCRIPT"] = str(Path(script_path).resolve())
    env["RUSTFLAGS"] = "--cfg verif_replay"
    env["CARGO_TARGET_DIR"] = str(CACHE / "target-native-pavex")
    p = subprocess.run(["cargo", "test", "--offline", "-p", "pavex", "--lib", "verif_replay_c15b", "--", "--nocapture", "--test-threads", "1"],
                       cwd=sc.repo, env=env, stdout=subprocess.PIPE, stderr=subprocess.STDOUT, text=True)
    log_path.parent.mkdir(parents=True, exist_ok=True)
    log_path.write_text(p.stdout)
    m = re.search(r"C15B-REPLAY (REPRODUCED|NOT-REPRODUCED|MALFORMED)(.*)$", p.stdout, re.M)
    if not m:
        return None, "the native replay did not run (see %s)" % log_path
    return {"REPRODUCED": True, "NOT-REPRODUCED": False}.get(m.group(1)), m.group(0)


def confirm_bodyq(sc: Scratch, g: dict, r: HarnessResult, log_dir: Path) -> dict:
    import json, os
    from .. import session
    role = f"{r.spec.name}: " + "; ".join(sorted({c["description"] for c in r.failed}))
    finds = session.native_search(g, r.spec.name, log_dir / f"{r.spec.name}.native-search.log", int(os.environ.get("VERIF_SEED", "0") or 0))
    rep_dir = VERIF / "replays" / "generated" / PID
    rep_dir.mkdir(parents=True, exist_ok=True)
    first = None
    seen = set()
    for tr in finds:
        recs = [l for l in tr if l.get("kind") == "c15b"]
        if not recs:
            continue
        script = {k: recs[0][k] for k in ("extractor", "header", "other_first", "bytes", "parser_fails", "trailing")}
        script["_origin"] = {"harness": r.spec.name, "failed": role}
        h = hashlib.sha256(json.dumps(script, sort_keys=True).encode()).hexdigest()[:12]
        if h in seen:
            continue
        seen.add(h)
        rep = rep_dir / f"{r.spec.name}-{h}.json"
        rep.write_text(json.dumps(script, indent=1) + "\n")
        first = first or rep
        ok, detail = _native_replay_bodyq(sc, rep, log_dir / f"{r.spec.name}.native.log")
        if ok is True:
            return {"reproduced": True, "replay": str(rep), "role": role, "detail": detail}
        if rep != first:
            rep.unlink(missing_ok=True)
    if first is not None:
        return {"reproduced": False, "replay": str(first), "role": role,
                "detail": f"{len(finds)} concrete failing inputs of the shim build do not misbehave on the real crate"}
    return {"reproduced": None, "role": role, "detail": "native search found no failing input"}


def _native_replay_extract(sc: Scratch, script_path: Path, log_path: Path) -> tuple[bool | None, str]:
    """Append the replay module to the scratch copy of the real path_params.rs and run it as a unit test of
    the real pavex crate (real matchit router, real percent-encoding). True = the real code misbehaves."""
    import os
    target = sc.repo / PATH_REL / "path_params.rs"
    src = target.read_text()
    if "mod verif_replay_c15x" not in src:
        target.write_text(src + "\n" + (XDIR / "replay_native.rs").read_text())
    env = env_offline()
    env["VERIF_C15X_SCRIPT"] = str(Path(script_path).resolve())
    env["RUSTFLAGS"] = "--cfg verif_replay"
    env["CARGO_TARGET_DIR"] = str(CACHE / "target-native-pavex")
    p = subprocess.run(["cargo", "test", "--offline", "-p", "pavex", "--lib", "verif_replay_c15x", "--", "--nocapture", "--test-threads", "1"],
                       cwd=sc.repo, env=env, stdout=subprocess.PIPE, stderr=subprocess.STDOUT, text=True)
    log_path.parent.mkdir(parents=True, exist_ok=True)
    log_path.write_text(p.stdout)
    m = re.search(r"C15X-REPLAY (REPRODUCED|NOT-REPRODUCED|MALFORMED)(.*)$", p.stdout, re.M)
    if not m:
        return None, "the native replay did not run (see %s)" % log_path
    return {"REPRODUCED": True, "NOT-REPRODUCED": False}.get(m.group(1)), m.group(0)


def confirm_extract(sc: Scratch, g: dict, r: HarnessResult, log_dir: Path) -> dict:
    import json, os
    from .. import session
    role = f"{r.spec.name}: " + "; ".join(sorted({c["description"] for c in r.failed}))
    finds = session.native_search(g, r.spec.name, log_dir / f"{r.spec.name}.native-search.log", int(os.environ.get("VERIF_SEED", "0") or 0))
    rep_dir = VERIF / "replays" / "generated" / PID
    rep_dir.mkdir(parents=True, exist_ok=True)
    first = None
    for tr in finds:
        recs = [l for l in tr if l.get("kind") == "c15x"]
        if not recs:
            continue
        script = {"target": recs[0]["target"], "params": recs[0]["params"], "_origin": {"harness": r.spec.name, "failed": role}}
        h = hashlib.sha256(json.dumps(script, sort_keys=True).encode()).hexdigest()[:12]
        rep = rep_dir / f"{r.spec.name}-{h}.json"
        rep.write_text(json.dumps(script, indent=1) + "\n")
        first = first or rep
        ok, detail = _native_replay_extract(sc, rep, log_dir / f"{r.spec.name}.native.log")
        if ok is True:
            return {"reproduced": True, "replay": str(rep), "role": role, "detail": detail}
        if rep != first:
            rep.unlink(missing_ok=True)
    if first is not None:
        return {"reproduced": False, "replay": str(first), "role": role,
                "detail": f"{len(finds)} concrete failing inputs of the shim build do not misbehave on the real crate"}
    return {"reproduced": None, "role": role, "detail": "native search found no failing input"}


def _run_playback(pkg_dir: Path, test_filter: str, log_path: Path, release: bool = False) -> tuple[bool | None, str]:
    """Run the concrete-playback unit test natively against the real crate.
    True = the test fails (the counterexample reproduces); False = it passes; None = could not run."""
    cmd = ["cargo", "kani", "playback", "-Z", "concrete-playback"]
    if release:
        cmd += ["--release"]
    cmd += ["--", test_filter]
    p = subprocess.run(cmd, cwd=pkg_dir, env=env_offline(), stdout=subprocess.PIPE, stderr=subprocess.STDOUT, text=True)
    log_path.write_text(p.stdout)
    m = re.search(r"test result: (\w+)\. (\d+) passed; (\d+) failed", p.stdout)
    if not m:
        return None, "playback did not run (see %s)" % log_path
    passed, failed = int(m.group(2)), int(m.group(3))
    if failed > 0:
        return True, f"native playback fails ({failed} test)"
    if passed > 0:
        return False, "native playback passes"
    return None, "no playback test matched"


def confirm(sc: Scratch, prep: dict, r: HarnessResult, log_dir: Path) -> dict:
    """Replay the solver's assignment natively against the real crate (dev profile)."""
    pkg = prep["pkg_dir"]
    # 1. ask Kani for the concrete values as a unit test
    r2 = core.run_kani(pkg, prep["target_dir"], r.spec, log_dir, prep.get("kani_args"), playback="print")
    text = Path(r2.log_path).read_text(errors="replace")
    tests = [t for t in re.findall(r"Concrete playback unit test for `[^`]+`:\n```\n(.*?)```", text, re.S) if "Check for `cover`" not in t]
    test = tests[0] if tests else None
    role = f"{r.spec.name}: " + "; ".join(sorted({c["description"] for c in r.failed}))
    if not test:
        return {"reproduced": None, "role": role, "detail": "Kani produced no concrete playback test"}
    h = hashlib.sha256(test.encode()).hexdigest()[:12]
    rep_dir = VERIF / "replays" / "generated" / PID
    rep_dir.mkdir(parents=True, exist_ok=True)
    rep = rep_dir / f"{r.spec.name}-{h}.rs"
    rep.write_text(f"// replay for {PID} harness {r.spec.name}\n// failed: {role}\n// harness={r.spec.name}\n" + test)
    ok, detail = _apply_and_play(sc, test, log_dir / f"{r.spec.name}.native.log")
    return {"reproduced": ok, "replay": str(rep), "role": role, "detail": detail}


def _apply_and_play(sc: Scratch, test: str, log_path: Path) -> tuple[bool | None, str]:
    target = sc.repo / TARGET_REL
    src = target.read_text()
    # the playback test must live inside the harness module (it calls the private harness fn)
    idx = src.rfind("}")
    src = src[:idx] + "\n" + test + "\n}\n"
    target.write_text(src)
    m = re.search(r"fn (kani_concrete_playback_\w+)", test)
    name = m.group(1) if m else "kani_concrete_playback"
    return _run_playback(sc.repo / "runtime" / "pavex", name, log_path)


def replay(path: Path) -> int:
    if path.suffix == ".json":
        import json as _json
        is_bodyq = "extractor" in _json.loads(path.read_text())
        with Scratch(PID + "-replay") as sc:
            ok, detail = (_native_replay_bodyq if is_bodyq else _native_replay_extract)(sc, path, CACHE / "logs" / PID / "replay.native.log")
        log(f"replay {path}: {detail}")
        if ok is True:
            print(f"VIOLATION property={PID} replay={path}", flush=True)
            return 1
        return 0 if ok is False else 2
    text = path.read_text()
    test = "\n".join(l for l in text.splitlines() if not l.startswith("// "))
    with Scratch(PID + "-replay") as sc:
        prepare(sc)
        ok, detail = _apply_and_play(sc, test, CACHE / "logs" / PID / "replay.native.log")
    log(f"replay {path}: {detail}")
    if ok is True:
        print(f"VIOLATION property={PID} replay={path}", flush=True)
        return 1
    return 0 if ok is False else 2
