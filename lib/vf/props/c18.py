"""C18 (configuration precedence): the real runtime/pavex/src/config/mod.rs, path-included into a small
root crate, against the figment/anyhow/tracing shims; harnesses in /verif/harness/config/c18.rs."""
from __future__ import annotations

import shutil
from pathlib import Path

import hashlib
import json
import os

from .. import core, session
from ..core import CACHE, VERIF, HarnessResult, Scratch, parse_harness_specs

PID = "C18"
HARNESS = VERIF / "harness" / "config" / "c18.rs"
CONFIG_REL = "runtime/pavex/src/config/mod.rs"
MACRO_REL = "runtime/pavex_macros/src/config_profile.rs"


def prepare(sc: Scratch) -> dict:
    pkg = sc.root / "h_config"
    if pkg.exists():
        shutil.rmtree(pkg)
    pkg.mkdir(parents=True)
    hcopy = pkg / "c18.rs"
    shutil.copy(HARNESS, hcopy)
    shutil.copy(VERIF / "harness" / "nd.rs", pkg / "nd.rs")
    # the real derive macro: runtime/pavex_macros/src/config_profile.rs, path-included unmodified into a
    # small proc-macro crate (the whole pavex_macros crate would drag pavexc_attr_parser and darling in)
    mac = pkg / "macros"
    (mac / "src").mkdir(parents=True)
    (mac / "Cargo.toml").write_text(
        '[package]\nname = "pavex_macros"\nversion = "0.0.0"\nedition = "2024"\n[lib]\nproc-macro = true\n'
        '[dependencies]\nconvert_case = "0.10"\nproc-macro2 = "1"\nquote = "1"\nsyn = "2"\n')
    (mac / "src" / "lib.rs").write_text(
        "use proc_macro::TokenStream;\n"
        f'#[path = "{sc.repo / MACRO_REL}"]\nmod config_profile;\n'
        "#[proc_macro_derive(ConfigProfile, attributes(px))]\n"
        "pub fn derive_config_profile(input: TokenStream) -> TokenStream {\n    config_profile::derive_config_profile(input)\n}\n")
    root = pkg / "root.rs"
    root.write_text(
        "#![allow(static_mut_refs, dead_code)]\n"
        "// the derive's output names `pavex::config::ConfigProfile`\n"
        "extern crate self as pavex;\n"
        f'#[path = "{sc.repo / CONFIG_REL}"]\npub mod config;\n'
        f'#[cfg(kani)]\n#[path = "{hcopy}"]\nmod verif_c18;\n')
    toml = (VERIF / "harness" / "config" / "Cargo.toml.in").read_text()
    (pkg / "Cargo.toml").write_text(toml.replace("@ROOT@", str(root)).replace("@SHIMS@", str(VERIF / "shims")).replace("@MACROS@", str(mac)))
    specs = [s for s in parse_harness_specs(HARNESS.read_text()) if s.name.startswith(("c18_", "dbg_"))]
    for s in specs:
        s.qual = "verif_c18::"
    return {
        "pkg_dir": pkg,
        "target_dir": CACHE / "target-config",
        "specs": specs,
        # MiniSat decides these pointer-heavy, arithmetic-light instances 4-10x faster than Kani's default CaDiCaL (measured)
        "kani_args": ["--solver", "minisat"],
        "jobs": {"quick": 2, "thorough": 2},
        "rewrites": {"path_included": [CONFIG_REL, MACRO_REL], "source_rewrites": "none"},
        "assumptions": [
            "figment shim: three abstract sources (base file, profile file, environment) whose per-key presence and value the harness chooses; merge = later source wins, join = earlier wins (figment's documented semantics); figment itself, YAML parsing, key casing and file discovery are the trusted base",
            "std::env::var is stubbed: PX_PROFILE is absent, 'dev', 'prd' or 'zz' (arbitrary choice)",
            "std::fmt::format is stubbed: it answers '<name>.yml' for the profile whose name the loader asked for last (AsRef<str>), so which profile selects the file IS checked; only the literal '{}.yml' template is outside the claim (the formatting machinery is beyond CBMC here)",
            "anyhow / tracing shims: opaque error value, no-op spans",
            "2 flat keys of type u8; nested keys and the __ splitting itself are figment's (only the separator handed over is checked)",
            "Kani 0.68 / CBMC 6.11 / CaDiCaL trusted; results hold within the stated bounds only",
        ],
        "evidence_extra": {
            "encoded_files": [CONFIG_REL, MACRO_REL + " (the real derive macro, run by rustc; its expansion is what the solver sees)"],
            "engine": "Kani 0.68.0 -> CBMC 6.11.0 (CaDiCaL) over the MIR of the real config module against contract shims",
        },
    }


def confirm(sc: Scratch, prep: dict, r: HarnessResult, log_dir: Path) -> dict:
    """native search over the harness inputs (shim build) -> script -> the REAL ConfigLoader with real
    figment, YAML files and process environment (replays/session_native/src/bin/config_native.rs)"""
    role = f"{r.spec.name}: " + "; ".join(sorted({c["description"] for c in r.failed}))
    exe = session.build_native_replayer(sc, log_dir / "native-build.log")
    if exe is None:
        return {"reproduced": None, "role": role, "detail": "native replayer did not build against the real crates"}
    finds = session.native_search(prep, r.spec.name, log_dir / f"{r.spec.name}.native-search.log", int(os.environ.get("VERIF_SEED", "0") or 0))
    rep_dir = VERIF / "replays" / "generated" / PID
    rep_dir.mkdir(parents=True, exist_ok=True)
    first = None
    for tr in finds:
        recs = [l for l in tr if l.get("kind") == "c18"]
        if not recs:
            continue
        base = {k: recs[0][k] for k in ("values", "explicit_profile", "env_profile")}
        # the counterexample as is; then with PX_PROFILE also present in the environment next to an
        # explicit profile (a parameter handed to the environment provider only shows then)
        variants = [base]
        if base["explicit_profile"] and not base["env_profile"]:
            variants.append({**base, "env_profile": base["explicit_profile"]})
        # ... and with a relative configuration directory, under the working directory or in one of its ancestors
        variants += [{**v, "dir_mode": m} for v in list(variants) for m in ("relative", "ancestor")]
        # ... and with the first key called like something that merely starts like the reserved PX_PROFILE
        # (flat `profiles_dir`, nested `profiler.label`), once with the key defined in the environment only
        env_only = {**base, "values": [[None, base["values"][0][1]], [None, base["values"][1][1]], [base["values"][2][0] if base["values"][2][0] is not None else 7, base["values"][2][1] if base["values"][2][1] is not None else 8]]}
        variants += [{**v, "key_style": st} for v in (base, env_only) for st in ("profiles_dir", "profiler_label")]
        for script in variants:
            script = dict(script)
            script["_origin"] = {"harness": r.spec.name, "failed": role}
            h = hashlib.sha256(json.dumps(script, sort_keys=True).encode()).hexdigest()[:12]
            rep = rep_dir / f"{r.spec.name}-{h}.json"
            rep.write_text(json.dumps(script, indent=1) + "\n")
            first = first or rep
            ok, detail = session.run_native_script(exe.parent / "config_native", rep)
            if ok is True:
                return {"reproduced": True, "replay": str(rep), "role": f"{r.spec.name}|{script['explicit_profile']}|{script['env_profile']}", "detail": detail}
            if rep != first:
                rep.unlink(missing_ok=True)
    if first is not None:
        return {"reproduced": False, "replay": str(first), "role": role,
                "detail": f"{len(finds)} concrete failing inputs of the shim build do not misbehave on the real loader (a parameter handed to figment changed without observable effect?)"}
    return {"reproduced": None, "role": role, "detail": "native search found no failing input"}


def replay(path: Path) -> int:
    return session.replay_script(PID, path, "config_native")
