"""C19 (what you register is what the compiler sees) - the builder's modifier calls and enum conversions:
real runtime/pavex crate and real pavex_bp_schema, no shims; the harness module is appended to the scratch
copy of blueprint/conversions.rs. Same package (and Kani target directory) as the first C15 group."""
from __future__ import annotations

import hashlib
import json
import re
from pathlib import Path

from .. import core
from ..core import CACHE, VERIF, HarnessResult, Scratch, log, parse_harness_specs
from . import c15

PID = "C19"
HARNESS_SRC = VERIF / "harness" / "blueprint" / "c19.rs"
TARGET_REL = "runtime/pavex/src/blueprint/conversions.rs"


def prepare(sc: Scratch) -> dict:
    target = sc.repo / TARGET_REL
    import shutil
    nd = sc.root / "nd_c19.rs"
    shutil.copy(VERIF / "harness" / "nd.rs", nd)
    hsrc = HARNESS_SRC.read_text().replace("@ND@", str(nd))
    target.write_text(target.read_text() + "\n" + hsrc)
    specs = parse_harness_specs(hsrc)
    for s in specs:
        s.qual = "blueprint::conversions::verif_c19::"
    return {
        "pkg_dir": sc.repo / "runtime" / "pavex",
        "target_dir": CACHE / "target-pavex",
        "specs": specs,
        "jobs": {"quick": 4, "thorough": 4},
        "rewrites": {"appended_harness_module": TARGET_REL, "px_workspace_hack": "hakari section emptied"},
        "assumptions": [
            "the schema value the modifiers work on is built directly (struct literals with empty strings): the registration calls (String coordinates, Location::caller) are outside - they did not finish in CBMC (DESIGN.md P20)",
            "RON serialisation / deserialisation of the schema and the attribute channel (macros -> rustdoc JSON -> pavexc_attr_parser) are outside",
            "Kani 0.68 / CBMC 6.11 / CaDiCaL trusted; results hold within the stated bounds only (3 components, sequences of 2-4 modifier calls)",
        ],
        "evidence_extra": {
            "encoded_files": [TARGET_REL, "runtime/pavex/src/blueprint/constructor.rs", "runtime/pavex/src/blueprint/config.rs",
                              "runtime/pavex/src/blueprint/prebuilt.rs", "compiler/pavex_bp_schema/src/lib.rs"],
            "engine": "Kani 0.68.0 -> CBMC 6.11.0 (CaDiCaL) over the MIR of the real pavex and pavex_bp_schema crates",
            "outside_the_claim": ["registration calls", "nesting / prefixes / domains", "RON round trip", "source locations", "Pavex attributes read back by pavexc_attr_parser"],
        },
    }


def _native(sc: Scratch, prep: dict, harness: str, log_path: Path) -> tuple[bool | None, str, list]:
    """Run the harness natively on the REAL crates (it has no shims) on pseudo-random inputs until it fails
    (harness/nd.rs). True = a failing input exists: the real code misbehaves on it."""
    from .. import session
    import os
    finds = session.native_search(prep, harness, log_path, int(os.environ.get("VERIF_SEED", "0") or 0))
    text = Path(log_path).read_text(errors="replace") if Path(log_path).exists() else ""
    if finds:
        msgs = [l.get("msg", "") for l in finds[0] if l.get("kind") == "panic"]
        return True, "the harness fails natively on the real crates: " + "; ".join(msgs)[:300], finds
    if re.search(r"NATIVE-SEARCH-NONE", text):
        return False, "no failing input found natively", finds
    return None, "the native search did not run (see %s)" % log_path, finds


def confirm(sc: Scratch, prep: dict, r: HarnessResult, log_dir: Path) -> dict:
    """The harness runs on the real, unshimmed crates, so executing it natively on concrete inputs is the
    confirmation (Kani's own concrete playback needed 29 GB for the nesting harness)."""
    role = f"{r.spec.name}: " + "; ".join(sorted({c["description"] for c in r.failed}))
    ok, detail, finds = _native(sc, prep, r.spec.name, log_dir / f"{r.spec.name}.native-search.log")
    rep_dir = VERIF / "replays" / "generated" / PID
    rep_dir.mkdir(parents=True, exist_ok=True)
    script = {"harness": r.spec.name, "failed": role, "detail": detail}
    h = hashlib.sha256(json.dumps(script, sort_keys=True).encode()).hexdigest()[:12]
    rep = rep_dir / f"{r.spec.name}-{h}.json"
    rep.write_text(json.dumps(script, indent=1) + "\n")
    return {"reproduced": ok, "replay": str(rep), "role": role, "detail": detail}


def replay(path: Path) -> int:
    script = json.loads(path.read_text())
    with Scratch(PID + "-replay") as sc:
        prep = prepare(sc)
        ok, detail, _ = _native(sc, prep, script["harness"], CACHE / "logs" / PID / "replay.native.log")
    log(f"replay {path}: {detail}")
    if ok is True:
        print(f"VIOLATION property={PID} replay={path}", flush=True)
        return 1
    return 0 if ok is False else 2
