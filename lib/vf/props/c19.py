"""C19 (what you register is what the compiler sees) - the builder's modifier calls and enum conversions:
real runtime/pavex crate and real pavex_bp_schema, no shims; the harness module is appended to the scratch
copy of blueprint/conversions.rs. Same package (and Kani target directory) as the first C15 group."""
from __future__ import annotations

import hashlib
import re
from pathlib import Path

from .. import core
from ..core import CACHE, VERIF, HarnessResult, Scratch, log, parse_harness_specs
from . import c15

PID = "C19"
HARNESS_SRC = VERIF / "harness" / "blueprint" / "c19.rs"
TARGET_REL = "runtime/pavex/src/blueprint/conversions.rs"


def prepare(sc: Scratch) -> dict:
    target = sc.repo / TARGET_REL
    hsrc = HARNESS_SRC.read_text()
    target.write_text(target.read_text() + "\n" + hsrc)
    specs = parse_harness_specs(hsrc)
    for s in specs:
        s.qual = "blueprint::conversions::verif_c19::"
    return {
        "pkg_dir": sc.repo / "runtime" / "pavex",
        "target_dir": CACHE / "target-pavex",
        "specs": specs,
        "jobs": {"quick": 4, "thorough": 4},
        "rewrites": {"appended_harness_module": TARGET_REL, "px_workspace_hack": "hakari section emptied"},
        "assumptions": [
            "the schema value the modifiers work on is built directly (struct literals with empty strings): the registration calls (String coordinates, Location::caller) are outside - they did not finish in CBMC (DESIGN.md P20)",
            "RON serialisation / deserialisation of the schema and the attribute channel (macros -> rustdoc JSON -> pavexc_attr_parser) are outside",
            "Kani 0.68 / CBMC 6.11 / CaDiCaL trusted; results hold within the stated bounds only (3 components, sequences of 2-4 modifier calls)",
        ],
        "evidence_extra": {
            "encoded_files": [TARGET_REL, "runtime/pavex/src/blueprint/constructor.rs", "runtime/pavex/src/blueprint/config.rs",
                              "runtime/pavex/src/blueprint/prebuilt.rs", "compiler/pavex_bp_schema/src/lib.rs"],
            "engine": "Kani 0.68.0 -> CBMC 6.11.0 (CaDiCaL) over the MIR of the real pavex and pavex_bp_schema crates",
            "outside_the_claim": ["registration calls", "nesting / prefixes / domains", "RON round trip", "source locations", "Pavex attributes read back by pavexc_attr_parser"],
        },
    }


def _apply_and_play(sc: Scratch, test: str, log_path: Path):
    target = sc.repo / TARGET_REL
    src = target.read_text()
    idx = src.rfind("}")
    target.write_text(src[:idx] + "\n" + test + "\n}\n")
    m = re.search(r"fn (kani_concrete_playback_\w+)", test)
    return c15._run_playback(sc.repo / "runtime" / "pavex", m.group(1) if m else "kani_concrete_playback", log_path)


def confirm(sc: Scratch, prep: dict, r: HarnessResult, log_dir: Path) -> dict:
    """Kani's concrete playback: the solver's values as a unit test of the real crate (the harness runs on the
    real, unshimmed code, so a failing native run of the same assertions IS the reproduction)."""
    r2 = core.run_kani(prep["pkg_dir"], prep["target_dir"], r.spec, log_dir, prep.get("kani_args"), playback="print")
    text = Path(r2.log_path).read_text(errors="replace")
    tests = [t for t in re.findall(r"Concrete playback unit test for `[^`]+`:\n```\n(.*?)```", text, re.S) if "Check for `cover`" not in t]
    role = f"{r.spec.name}: " + "; ".join(sorted({c["description"] for c in r.failed}))
    if not tests:
        return {"reproduced": None, "role": role, "detail": "Kani produced no concrete playback test"}
    test = tests[0]
    h = hashlib.sha256(test.encode()).hexdigest()[:12]
    rep_dir = VERIF / "replays" / "generated" / PID
    rep_dir.mkdir(parents=True, exist_ok=True)
    rep = rep_dir / f"{r.spec.name}-{h}.rs"
    rep.write_text(f"// replay for {PID} harness {r.spec.name}\n// failed: {role}\n// harness={r.spec.name}\n" + test)
    ok, detail = _apply_and_play(sc, test, log_dir / f"{r.spec.name}.native.log")
    return {"reproduced": ok, "replay": str(rep), "role": role, "detail": detail}


def replay(path: Path) -> int:
    text = path.read_text()
    test = "\n".join(l for l in text.splitlines() if not l.startswith("// "))
    with Scratch(PID + "-replay") as sc:
        prepare(sc)
        ok, detail = _apply_and_play(sc, test, CACHE / "logs" / PID / "replay.native.log")
    log(f"replay {path}: {detail}")
    if ok is True:
        print(f"VIOLATION property={PID} replay={path}", flush=True)
        return 1
    return 0 if ok is False else 2
