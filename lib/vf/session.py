"""Encoding of the session crates: real pavex_session (and pavex_session_memory_store) sources from
the scratch copy, mechanically rewritten (de-async, HashMap alias) and re-rooted on the contract
shims of /verif/shims."""
from __future__ import annotations

import hashlib
import json
import os
import re
import shutil
import subprocess
from pathlib import Path

from . import core
from .core import CACHE, VERIF, DEASYNC_RULES, HASHMAP_RULES, RewriteError, Scratch, rewrite_tokens, _mask_non_code

SESSION_REL = "runtime/sessions/pavex_session/src"
MEMSTORE_REL = "runtime/sessions/pavex_session_memory_store/src"


def _split_grouped_hashmap_import(src: str) -> tuple[str, int]:
    """`use std::{borrow::Cow, collections::HashMap, x};` -> the same without HashMap, plus
    `use crate::verif_map::HashMap;`"""
    masked = _mask_non_code(src)
    n = 0
    out, last = [], 0
    for m in re.finditer(r"\buse\s+std::\{([^}]*)\}\s*;", masked):
        body = src[m.start(1):m.end(1)]
        parts = [p.strip() for p in body.split(",") if p.strip()]
        if "collections::HashMap" not in parts:
            continue
        parts.remove("collections::HashMap")
        out.append(src[last:m.start()])
        out.append("use std::{" + ", ".join(parts) + "};\nuse crate::verif_map::HashMap;")
        last = m.end()
        n += 1
    out.append(src[last:])
    return "".join(out), n


def rewrite_tree(src_dir: Path, map_path: str = "crate::verif_map") -> dict:
    totals = {"async_fn": 0, "async_block": 0, "await": 0, "hashmap_use": 0, "files": 0}
    for f in sorted(src_dir.rglob("*.rs")):
        s = f.read_text()
        s, n_grp = _split_grouped_hashmap_import(s)
        rules = DEASYNC_RULES + [(p, r.replace("crate::verif_map", map_path)) for p, r in HASHMAP_RULES]
        s2, counts = rewrite_tokens(s, rules)
        if map_path != "crate::verif_map":
            s2 = s2.replace("use crate::verif_map::HashMap;", f"use {map_path}::HashMap;")
        vals = list(counts.values())
        totals["async_fn"] += vals[0]
        totals["async_block"] += vals[1] + vals[2]
        totals["await"] += vals[3]
        totals["hashmap_use"] += vals[4] + vals[5] + vals[6] + n_grp
        totals["files"] += 1
        masked = _mask_non_code(s2)
        if re.search(r"\basync\b", masked) or re.search(r"\.\s*await\b", masked):
            raise RewriteError(f"{f}: async/await left after the de-async rewrite")
        if re.search(r"\bstd::collections::HashMap\b|\bcollections::HashMap\b", masked):
            raise RewriteError(f"{f}: a std HashMap import survived the alias rewrite")
        f.write_text(s2)
    return totals


def prepare_session(sc: Scratch, harness_mods: list[tuple[str, str, str]]) -> dict:
    """harness_mods: (file relative to the crate's src, module name, absolute path of the harness).

    The encoding lives in <scratch>/enc_session/src (a rewritten copy of the real sources);
    <scratch>/repo stays pristine so that counterexamples can be replayed against the real crates."""
    src = sc.root / "enc_session" / "src"
    if src.parent.exists():
        shutil.rmtree(src.parent)
    shutil.copytree(sc.repo / SESSION_REL, src)
    totals = rewrite_tree(src)
    shutil.copy(VERIF / "shims" / "verif_map.rs", src / "verif_map.rs")
    lib = src / "lib.rs"
    lib.write_text(lib.read_text() + "\n#[doc(hidden)]\npub mod verif_map;\n")
    hdir = sc.root / "harness"
    hdir.mkdir(exist_ok=True)
    shutil.copy(VERIF / "harness" / "nd.rs", hdir / "nd.rs")
    harness_copies = {}
    for rel, modname, hpath in harness_mods:
        hcopy = hdir / Path(hpath).name
        shutil.copy(hpath, hcopy)
        harness_copies[modname] = hcopy
        f = src / rel
        f.write_text(f.read_text() + f'\n#[cfg(kani)]\n#[path = "{hcopy}"]\nmod {modname};\n')
    pkg = sc.root / "h_session"
    pkg.mkdir(parents=True, exist_ok=True)
    toml = (VERIF / "harness" / "session" / "Cargo.toml.in").read_text()
    toml = toml.replace("@SRC@", str(src)).replace("@SHIMS@", str(VERIF / "shims"))
    (pkg / "Cargo.toml").write_text(toml)
    return {"pkg_dir": pkg, "harness_copies": harness_copies,
            "rewrites": {"pavex_session": totals, "px_workspace_hack": "hakari section emptied"}}


def prepare_memstore(sc: Scratch, harness_path: Path) -> dict:
    """Encoding of pavex_session_memory_store on top of the session encoding (its dependency)."""
    base = prepare_session(sc, [])
    src = sc.root / "enc_memstore" / "src"
    if src.parent.exists():
        shutil.rmtree(src.parent)
    shutil.copytree(sc.repo / MEMSTORE_REL, src)
    totals = rewrite_tree(src, map_path="pavex_session::verif_map")
    # Vec growth (realloc + memcpy of symbolic size) makes delete_expired explode in CBMC (45 M variables):
    # pre-size the one Vec of the store to the bound of the harness. Stated cut: capacity growth is outside.
    lib0 = src / "lib.rs"
    txt, n = rewrite_tokens(lib0.read_text(), [(r"\bVec::new\(\)", "Vec::with_capacity(2)")])
    lib0.write_text(txt)
    totals["vec_new_presized"] = list(n.values())[0]
    hdir = sc.root / "harness"
    hdir.mkdir(exist_ok=True)
    shutil.copy(VERIF / "harness" / "nd.rs", hdir / "nd.rs")
    hcopy = hdir / harness_path.name
    shutil.copy(harness_path, hcopy)
    lib = src / "lib.rs"
    lib.write_text(lib.read_text() + f'\n#[cfg(kani)]\n#[path = "{hcopy}"]\nmod verif_c13;\n')
    pkg = sc.root / "h_memstore"
    pkg.mkdir(parents=True, exist_ok=True)
    toml = (VERIF / "harness" / "memstore" / "Cargo.toml.in").read_text()
    toml = toml.replace("@SRC@", str(src)).replace("@SHIMS@", str(VERIF / "shims")).replace("@SESSION_PKG@", str(base["pkg_dir"]))
    (pkg / "Cargo.toml").write_text(toml)
    rew = dict(base["rewrites"])
    rew["pavex_session_memory_store"] = totals
    return {"pkg_dir": pkg, "harness_copies": {"verif_c13": hcopy}, "rewrites": rew}


# ---------------------------------------------------------------------------------------------
# native replay of a counterexample against the real crates
# ---------------------------------------------------------------------------------------------

def build_native_replayer(sc: Scratch, log_path: Path) -> Path | None:
    d = sc.root / "session_native"
    if d.exists():
        shutil.rmtree(d)
    d.mkdir(parents=True)
    src = VERIF / "replays" / "session_native"
    # A second copy of the REAL in-memory store whose only difference is where it reads the time:
    # `Timestamp::now()` -> `crate::verif_clock::now()` (a settable instant). Everything else - std
    # HashMap, tokio Mutex, async code - is the real crate. It lets C13 counterexamples that need the
    # clock to stand exactly on a deadline be replayed (the real clock cannot be stopped).
    clocked = sc.root / "memstore_clocked"
    if clocked.exists():
        shutil.rmtree(clocked)
    shutil.copytree(sc.repo / "runtime" / "sessions" / "pavex_session_memory_store", clocked, ignore=shutil.ignore_patterns("target"))
    ct = (clocked / "Cargo.toml").read_text()
    ct = ct.replace('name = "pavex_session_memory_store"', 'name = "pavex_session_memory_store_clocked"')
    ct = ct.replace("version.workspace = true", 'version = "0.0.0"').replace("edition.workspace = true", 'edition = "2024"')
    ct = re.sub(r"^(description|keywords|repository|license)(\.workspace)? = .*\n", "", ct, flags=re.M)
    ct = ct.replace("pavex_session = { workspace = true }", f'pavex_session = {{ path = "{sc.repo}/runtime/sessions/pavex_session" }}')
    ct = ct.replace("pavex = { workspace = true }", f'pavex = {{ path = "{sc.repo}/runtime/pavex" }}')
    ct = ct.replace("serde_json = { workspace = true }", 'serde_json = "1"').replace("async-trait = { workspace = true }", 'async-trait = "0.1"')
    ct = ct.replace('tokio = { workspace = true, features = ["sync"] }', 'tokio = { version = "1", features = ["sync"] }').replace("tracing = { workspace = true }", 'tracing = "0.1"')
    ct = re.sub(r'px_workspace_hack = \{[^}]*\}', f'px_workspace_hack = {{ path = "{sc.repo}/px_workspace_hack" }}', ct)
    (clocked / "Cargo.toml").write_text(ct)
    lib = clocked / "src" / "lib.rs"
    txt, n = rewrite_tokens(lib.read_text(), [(r"\bTimestamp::now\(\)", "crate::verif_clock::now()")])
    lib.write_text(txt + """
/// Verification-only: the instant `now()` returns is set by the replayer.
pub mod verif_clock {
    use pavex::time::Timestamp;
    use std::sync::atomic::{AtomicI64, Ordering};
    static NOW: AtomicI64 = AtomicI64::new(0);
    /// milliseconds since the epoch
    pub fn set(ms: i64) {
        NOW.store(ms, Ordering::SeqCst);
    }
    pub fn now() -> Timestamp {
        Timestamp::from_millisecond(NOW.load(Ordering::SeqCst)).expect("valid instant")
    }
}
""")
    (d / "Cargo.toml").write_text((src / "Cargo.toml.in").read_text().replace("@REPO@", str(sc.repo)).replace("@CLOCKED@", str(clocked)))
    shutil.copy(src / "Cargo.lock", d / "Cargo.lock")
    shutil.copytree(src / "src", d / "src")
    tgt = CACHE / "target-native"
    env = core.env_offline()
    env["CARGO_TARGET_DIR"] = str(tgt)
    p = subprocess.run(["cargo", "build", "--offline"], cwd=d, env=env, stdout=subprocess.PIPE, stderr=subprocess.STDOUT, text=True)
    log_path.parent.mkdir(parents=True, exist_ok=True)
    log_path.write_text(p.stdout)
    exe = tgt / "debug" / "session_native"
    return exe if p.returncode == 0 and exe.exists() else None


def run_native_script(exe: Path, script: Path) -> tuple[bool | None, str]:
    p = subprocess.run([str(exe), str(script)], stdout=subprocess.PIPE, stderr=subprocess.STDOUT, text=True)
    out = p.stdout.strip().splitlines()
    last = out[-1] if out else ""
    if p.returncode == 1:
        return True, last
    if p.returncode == 0:
        return False, last
    return None, last


def _val(v):
    return None if v == "nil" else v


def _set_map_ops(prefix: str, m: list) -> list:
    """ops that leave exactly `m` (over keys a,b) in a map that is flagged as modified"""
    ops = [[f"{prefix}_insert", "a", None]]
    for k, v in zip(("a", "b"), m):
        ops.append([f"{prefix}_remove", k] if v is None else [f"{prefix}_insert", k, _val(v)])
    return ops


def script_from_trace(world: dict, ops: list[dict]) -> dict:
    """Turn the conjured pre-state of a step harness into a public-API script that reaches it
    (canonical prefix), followed by the operation(s) and a read-everything next request."""
    idk, ssk = world["idk"], world["ssk"]          # 0 Existing 1 ToBeRenamed 2 New ; 0 NotLoaded 1 Unchanged 2 DoesNotExist 3 Marked 4 Changed
    known = idk != 2
    allow = world["allow"]
    cfg = {"missing": "allow" if allow else "reject",
           "creation": "never_skip" if world["never_skip"] else "skip_if_empty",
           "extend_ttl": "on_state_loads_and_changes" if world["extend_on_loads"] else "on_state_changes",
           "threshold": 0.8 if world["threshold"] else None}
    if world.get("cookie_kind"):
        cfg["cookie_kind"] = world["cookie_kind"]
    as_map = lambda m: {k: _val(v) for k, v in zip(("a", "b"), m) if v is not None}
    store = []
    if known and world["rec_o"]:
        store.append({"label": "O", "state": as_map(world["rec_o"]["state"]), "ttl_pct": max(1, min(100, int(world["rec_o"].get("ttl", 100))))})
    if world["rec_x"]:
        store.append({"label": "X", "state": as_map(world["rec_x"]["state"])})
    pre = []
    cookie = None
    if known:
        cookie = {"label": "O", "client": {} if world["client_updated"] else as_map(world["cmap"])}
    if world["client_updated"]:
        pre += _set_map_ops("client", world["cmap"])
    rec_present = bool(world["rec_o"]) and known
    if ssk == 1:
        pre.append(["force_load"])
    elif ssk == 2 and known:
        pre += [["force_load"]] if allow else [["delete"], ["sync"]]
    elif ssk == 3:
        pre.append(["invalidate"] if world["invalidated"] else ["delete"])
    elif ssk == 4:
        if known and not rec_present and not allow:
            pre += [["delete"], ["sync"]]
        pre += _set_map_ops("server", world["smap"])
    if idk == 1:
        pre.append(["cycle_id"])
    body = []
    for o in ops:
        name = o["op"]
        if name in ("finalize",):
            continue
        if name in ("client_is_empty",):
            continue
        e = [name, o.get("key", "a")]
        if name.endswith("_insert"):
            e.append(_val(o.get("value")))
        body.append(e)
    reads = [["server_get", "a"], ["server_get", "b"], ["client_get", "a"], ["client_get", "b"]]
    return {"config": cfg, "store": store,
            "requests": [{"cookie": cookie, "ops": pre + body}, {"cookie": "previous", "ops": reads}],
            "_origin": {"world": world, "ops": ops}}


def _try_session_trace(pid: str, r, role: str, lines: list[dict], exe: Path, shim_fails: bool) -> dict:
    """One concrete input of the harness (as VTRACE records) -> public-API scripts -> real crates."""
    worlds = [l for l in lines if l.get("kind") == "world"]
    ops = [l for l in lines if l.get("kind") == "op"]
    extra = {}
    for l in lines:
        if l.get("kind") == "c12":
            extra = {"cookie": l["cookie"], "middleware": l["middleware"]}
    if not worlds:
        return {"reproduced": None, "role": role, "detail": "no trace"}
    rep_dir = VERIF / "replays" / "generated" / pid
    rep_dir.mkdir(parents=True, exist_ok=True)
    op_sig = " ".join(o["op"] for o in ops)
    # The counterexample itself first; then - because a broken invariant only becomes observable
    # when a later operation relies on it - the same pre-state and operation under the other
    # creation / missing-state policies and followed by a few short continuations. This is replay
    # (finding the concrete public-API history the solver's counterexample stands for), not the
    # deciding step: nothing is reported unless the real crates misbehave on a concrete script.
    continuations = [[], [{"op": "sync"}], [{"op": "server_insert", "key": "a", "value": True}],
                     [{"op": "sync"}, {"op": "server_insert", "key": "a", "value": True}],
                     [{"op": "sync"}, {"op": "server_get", "key": "a"}],
                     [{"op": "client_insert", "key": "a", "value": True}],
                     [{"op": "sync"}, {"op": "cycle_id"}]]
    if extra:
        continuations = [[]]
    first = None
    tried = 0
    for flip_creation in ((False,) if extra else (False, True)):
        for flip_missing in ((False,) if extra else (False, True)):
            for cont in continuations:
                w = dict(worlds[0])
                if flip_creation:
                    w["never_skip"] = not w["never_skip"]
                if flip_missing:
                    w["allow"] = not w["allow"]
                script = script_from_trace(w, ops + cont)
                script.update(extra)
                script["_origin"].update({"harness": r.spec.name, "failed": role, "shim_run_fails": shim_fails,
                                          "variant": {"flip_creation": flip_creation, "flip_missing": flip_missing, "continuation": cont}})
                h = hashlib.sha256(json.dumps(script, sort_keys=True).encode()).hexdigest()[:12]
                rep = rep_dir / f"{r.spec.name}-{h}.json"
                rep.write_text(json.dumps(script, indent=1) + "\n")
                if first is None:
                    first = rep
                ok, detail = run_native_script(exe, rep)
                tried += 1
                if ok is True:
                    return {"reproduced": True, "replay": str(rep), "role": f"{r.spec.name}|{op_sig}",
                            "detail": detail + f" [variant {tried}: creation flipped={flip_creation}, missing flipped={flip_missing}, continuation={[c['op'] for c in cont]}]"}
                if rep != first:
                    rep.unlink(missing_ok=True)
    return {"reproduced": False, "replay": str(first), "role": f"{r.spec.name}|{op_sig}", "tried": tried,
            "detail": f"none of {tried} concrete scripts derived from this input misbehaves on the real crates"}


def confirm_session(pid: str, sc: Scratch, prep: dict, r, log_dir: Path, modname: str) -> dict:
    """Replay a Kani counterexample: (1) make it concrete - native search over the harness's own
    inputs in the shim build (harness/nd.rs), falling back to Kani's concrete playback; (2) turn the
    concrete input into a public-API script and run it against the real, unshimmed crates."""
    role = f"{r.spec.name}: " + "; ".join(sorted({c["description"] for c in r.failed}))
    exe = build_native_replayer(sc, log_dir / "native-build.log")
    if exe is None:
        return {"reproduced": None, "role": role, "detail": "native replayer did not build against the real crates"}
    finds = native_search(prep, r.spec.name, log_dir / f"{r.spec.name}.native-search.log", int(os.environ.get("VERIF_SEED", "0") or 0))
    last = None
    for tr in finds:
        out = _try_session_trace(pid, r, role, tr, exe, True)
        if out.get("reproduced") is True:
            return out
        last = out
    if last is not None:
        last["detail"] = f"{len(finds)} concrete failing inputs of the shim build: " + last["detail"]
        return last
    # fallback: Kani's own concrete playback (expensive: the trace multiplies the formula size)
    r2 = core.run_kani(prep["pkg_dir"], prep["target_dir"], r.spec, log_dir, prep.get("kani_args"), playback="print")
    text = Path(r2.log_path).read_text(errors="replace")
    tests = re.findall(r"Concrete playback unit test for `[^`]+`:\n```\n(.*?)```", text, re.S)
    tests = [t for t in tests if "Check for `cover`" not in t] or tests
    if not tests:
        return {"reproduced": None, "role": role, "detail": "native search found no failing input and Kani produced no concrete playback test"}
    test = tests[0]
    hcopy = prep["harness_copies"][modname]
    hcopy.write_text(hcopy.read_text() + "\n" + test + "\n")
    name = re.search(r"fn (kani_concrete_playback_\w+)", test).group(1)
    p = subprocess.run(["cargo", "kani", "playback", "-Z", "concrete-playback", "--", name, "--nocapture"],
                       cwd=prep["pkg_dir"], env={**core.env_offline(), "VERIF_TRACE_ECHO": "1"}, stdout=subprocess.PIPE, stderr=subprocess.STDOUT, text=True)
    (log_dir / f"{r.spec.name}.shim-playback.log").write_text(p.stdout)
    # under cfg(test) the harness buffers its trace (nd::trace); the playback test prints nothing by
    # itself, so the trace is recovered through the panic hook-less native search format
    lines = [json.loads(l.split("VTRACE ", 1)[1]) for l in p.stdout.splitlines() if "VTRACE " in l]
    shim_fails = bool(re.search(r"test result: FAILED|panicked at", p.stdout))
    return _try_session_trace(pid, r, role, lines, exe, shim_fails)


def native_search(prep: dict, harness: str, log_path: Path, seed: int = 0) -> list[list[dict]]:
    """Execute the harness natively (shim build, cfg(test)) on pseudo-random inputs until it fails
    (harness/nd.rs). Returns the traces (lists of VTRACE records) of up to 8 failing inputs."""
    env = core.env_offline()
    env["VERIF_SEED"] = str(seed)
    p = subprocess.run(["cargo", "kani", "playback", "-Z", "concrete-playback", "--", f"native_search::{harness}", "--nocapture", "--test-threads", "1"],
                       cwd=prep["pkg_dir"], env=env, stdout=subprocess.PIPE, stderr=subprocess.STDOUT, text=True)
    log_path.parent.mkdir(parents=True, exist_ok=True)
    log_path.write_text(p.stdout)
    finds, cur = [], None
    for l in p.stdout.splitlines():
        if l.startswith("NATIVE-SEARCH-FOUND"):
            cur = []
        elif l.startswith("NATIVE-SEARCH-PANIC") and cur is not None:
            cur.append({"kind": "panic", "msg": l.split(" ", 1)[1] if " " in l else ""})
        elif l.startswith("VTRACE ") and cur is not None:
            try:
                cur.append(json.loads(l.split("VTRACE ", 1)[1]))
            except json.JSONDecodeError:
                pass
        elif l.startswith("NATIVE-SEARCH-END") and cur is not None:
            finds.append(cur)
            cur = None
    return finds


def _memstore_script(trace: list[dict], harness: str, role: str) -> dict | None:
    stores = [l for l in trace if l.get("kind") == "store"]
    ops = [l for l in trace if l.get("kind") == "op"]
    races = [l for l in trace if l.get("kind") == "race"]
    as_map = lambda m: {k: _val(v) for k, v in zip(("a", "b"), m) if v is not None}
    if stores and races:
        # two callers: the operation under test and the other task's operation, raced natively
        st = stores[0]
        recs = [{"id": lab, "state": as_map(st[key]["state"]), "live": st[key]["deadline"] > st["now"], "_deadline_ms": st[key]["deadline"] * 250}
                for lab, key in (("A", "a"), ("B", "b")) if st[key]]
        conv = lambda o: {"name": o["name"], "id": o["id"], "to": o["to"], "state": as_map(o["state"]), "ttl_ms": o["ttl_ticks"] * 250}
        return {"records": recs, "race": {"ours": conv(races[0]["ours"]), "other": conv(races[0]["other"])},
                "_origin": {"harness": harness, "failed": role, "now_ms": st["now"] * 250}}
    if not stores or not ops:
        return None
    st, op = stores[0], ops[0]
    recs = []
    # the harness counts time in ticks of 250 ms; the replay script is in milliseconds
    ms = lambda ticks: ticks * 250
    for lab, key in (("A", "a"), ("B", "b")):
        if st[key]:
            recs.append({"id": lab, "state": as_map(st[key]["state"]), "live": st[key]["deadline"] > st["now"],
                         "_deadline_ms": ms(st[key]["deadline"])})
    ttls = [l for l in trace if l.get("kind") == "ttl"]
    o = {"name": op["name"], "id": op["id"], "to": op["to"], "state": as_map(op["state"]), "batch": op["batch"]}
    if ttls:
        o["ttl_ms"] = ms(ttls[0]["ticks"])
    return {"records": recs, "op": o, "_origin": {"harness": harness, "failed": role, "now_ms": ms(st["now"])}}


def confirm_memstore(pid: str, sc: Scratch, prep: dict, r, log_dir: Path) -> dict:
    role = f"{r.spec.name}: " + "; ".join(sorted({c["description"] for c in r.failed}))
    rep_dir = VERIF / "replays" / "generated" / pid
    rep_dir.mkdir(parents=True, exist_ok=True)
    exe = build_native_replayer(sc, log_dir / "native-build.log")
    if exe is None:
        return {"reproduced": None, "role": role, "detail": "native replayer did not build against the real crates"}
    # 1. make the solver's counterexample concrete: native search over the harness's own inputs
    finds = native_search(prep, r.spec.name, log_dir / f"{r.spec.name}.native-search.log", int(os.environ.get("VERIF_SEED", "0") or 0))
    first, n = None, 0
    for tr in finds:
        script = _memstore_script(tr, r.spec.name, role)
        if script is None:
            continue
        h = hashlib.sha256(json.dumps(script, sort_keys=True).encode()).hexdigest()[:12]
        rep = rep_dir / f"{r.spec.name}-{h}.json"
        rep.write_text(json.dumps(script, indent=1) + "\n")
        first = first or rep
        n += 1
        ok, detail = run_native_script(exe.parent / "memstore_native", rep)
        if ok is True:
            return {"reproduced": True, "replay": str(rep), "role": f"{r.spec.name}|{(script.get('op') or script['race']['ours'])['name']}", "detail": detail}
        if rep != first:
            rep.unlink(missing_ok=True)
    if n:
        return {"reproduced": False, "replay": str(first), "role": role,
                "detail": f"{n} concrete failing inputs of the shim build do not misbehave on the real store (e.g. they need the clock to stand exactly at a deadline)"}
    return _confirm_memstore_via_playback(pid, sc, prep, r, log_dir, role, exe)


def _confirm_memstore_via_playback(pid: str, sc: Scratch, prep: dict, r, log_dir: Path, role: str, exe: Path) -> dict:
    r2 = core.run_kani(prep["pkg_dir"], prep["target_dir"], r.spec, log_dir, prep.get("kani_args"), playback="print")
    text = Path(r2.log_path).read_text(errors="replace")
    tests = re.findall(r"Concrete playback unit test for `[^`]+`:\n```\n(.*?)```", text, re.S)
    tests = [t for t in tests if "Check for `cover`" not in t] or tests
    if not tests:
        return {"reproduced": None, "role": role, "detail": "native search found no failing input and Kani produced no concrete playback test"}
    hcopy = prep["harness_copies"]["verif_c13"]
    hcopy.write_text(hcopy.read_text() + "\n" + tests[0] + "\n")
    name = re.search(r"fn (kani_concrete_playback_\w+)", tests[0]).group(1)
    p = subprocess.run(["cargo", "kani", "playback", "-Z", "concrete-playback", "--", name, "--nocapture"],
                       cwd=prep["pkg_dir"], env={**core.env_offline(), "VERIF_TRACE_ECHO": "1"}, stdout=subprocess.PIPE, stderr=subprocess.STDOUT, text=True)
    (log_dir / f"{r.spec.name}.shim-playback.log").write_text(p.stdout)
    lines = [json.loads(l.split("VTRACE ", 1)[1]) for l in p.stdout.splitlines() if "VTRACE " in l]
    script = _memstore_script(lines, r.spec.name, role)
    if script is None:
        return {"reproduced": None, "role": role, "detail": "shim playback produced no trace (see log)"}
    h = hashlib.sha256(json.dumps(script, sort_keys=True).encode()).hexdigest()[:12]
    rep_dir = VERIF / "replays" / "generated" / pid
    rep = rep_dir / f"{r.spec.name}-{h}.json"
    rep.write_text(json.dumps(script, indent=1) + "\n")
    ok, detail = run_native_script(exe.parent / "memstore_native", rep)
    return {"reproduced": ok, "replay": str(rep), "role": f"{r.spec.name}|{(script.get('op') or script['race']['ours'])['name']}", "detail": detail}


def replay_script(pid: str, path: Path, exe_name: str = "session_native") -> int:
    with Scratch(pid + "-replay") as sc:
        exe = build_native_replayer(sc, CACHE / "logs" / pid / "native-build.log")
        if exe is None:
            core.log("native replayer did not build")
            return 2
        ok, detail = run_native_script(exe.parent / exe_name, path)
    core.log(f"replay {path}: {detail}")
    if ok is True:
        print(f"VIOLATION property={pid} replay={path}", flush=True)
        return 1
    return 0 if ok is False else 2


SESSION_SHIM_ASSUMPTIONS = [
    "de-async rewrite (async fn -> fn, .await removed, #[async_trait] = identity): faithful for an executor whose awaited futures never suspend; the harness store answers immediately; concurrent use of one Session is excluded by its !Send/!Sync design",
    "std::collections::HashMap -> verif_map::HashMap (3-slot, heap-free finite map with the same API subset; keys never dropped): hashing and more than 3 keys per map are outside the claim",
    "serde_json shim: Value = Null | Bool | Number(i64) (Copy); to_string records the tokens emitted by the real derived Serialize impl of WireClientState, from_str replays them through the real derived Deserialize; JSON text syntax and nested values are outside",
    "uuid shim: 128 opaque bits as two u64; new_v4() returns a value distinct from every id chosen by the harness (fresh-id contract), so the 16-attempt collision loop of cycle_id is cut after its first iteration",
    "pavex shim: cookie types are plain records with the setter names used by pavex_session; Processor::will_encrypt/will_sign answer from two arbitrary bools; registration attribute macros are the identity",
    "tracing / pavex_tracing shims: logging has an empty body; anyhow shim: opaque error value",
    "the storage backend is a 3-slot array implementing the real SessionStorageBackend trait with plain map semantics (no expiry fault unless the harness says so)",
    "Kani 0.68 / CBMC 6.11 / CaDiCaL trusted; results hold within each harness's stated bound only",
]
