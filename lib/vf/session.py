"""Encoding of the session crates: real pavex_session (and pavex_session_memory_store) sources from
the scratch copy, mechanically rewritten (de-async, HashMap alias) and re-rooted on the contract
shims of /verif/shims."""
from __future__ import annotations

import re
import shutil
from pathlib import Path

from . import core
from .core import CACHE, VERIF, DEASYNC_RULES, HASHMAP_RULES, RewriteError, Scratch, rewrite_tokens, _mask_non_code

SESSION_REL = "runtime/sessions/pavex_session/src"
MEMSTORE_REL = "runtime/sessions/pavex_session_memory_store/src"


def _split_grouped_hashmap_import(src: str) -> tuple[str, int]:
    """`use std::{borrow::Cow, collections::HashMap, x};` -> the same without HashMap, plus
    `use crate::verif_map::HashMap;`"""
    masked = _mask_non_code(src)
    n = 0
    out, last = [], 0
    for m in re.finditer(r"\buse\s+std::\{([^}]*)\}\s*;", masked):
        body = src[m.start(1):m.end(1)]
        parts = [p.strip() for p in body.split(",") if p.strip()]
        if "collections::HashMap" not in parts:
            continue
        parts.remove("collections::HashMap")
        out.append(src[last:m.start()])
        out.append("use std::{" + ", ".join(parts) + "};\nuse crate::verif_map::HashMap;")
        last = m.end()
        n += 1
    out.append(src[last:])
    return "".join(out), n


def rewrite_tree(src_dir: Path, map_path: str = "crate::verif_map") -> dict:
    totals = {"async_fn": 0, "async_block": 0, "await": 0, "hashmap_use": 0, "files": 0}
    for f in sorted(src_dir.rglob("*.rs")):
        s = f.read_text()
        s, n_grp = _split_grouped_hashmap_import(s)
        rules = DEASYNC_RULES + [(p, r.replace("crate::verif_map", map_path)) for p, r in HASHMAP_RULES]
        s2, counts = rewrite_tokens(s, rules)
        if map_path != "crate::verif_map":
            s2 = s2.replace("use crate::verif_map::HashMap;", f"use {map_path}::HashMap;")
        vals = list(counts.values())
        totals["async_fn"] += vals[0]
        totals["async_block"] += vals[1] + vals[2]
        totals["await"] += vals[3]
        totals["hashmap_use"] += vals[4] + vals[5] + n_grp
        totals["files"] += 1
        masked = _mask_non_code(s2)
        if re.search(r"\basync\b", masked) or re.search(r"\.\s*await\b", masked):
            raise RewriteError(f"{f}: async/await left after the de-async rewrite")
        if re.search(r"\bstd::collections::HashMap\b|\bcollections::HashMap\b", masked):
            raise RewriteError(f"{f}: a std HashMap import survived the alias rewrite")
        f.write_text(s2)
    return totals


def prepare_session(sc: Scratch, harness_mods: list[tuple[str, str, str]]) -> dict:
    """harness_mods: (file relative to the crate's src, module name, absolute path of the harness)."""
    src = sc.repo / SESSION_REL
    totals = rewrite_tree(src)
    shutil.copy(VERIF / "shims" / "verif_map.rs", src / "verif_map.rs")
    lib = src / "lib.rs"
    lib.write_text(lib.read_text() + "\n#[doc(hidden)]\npub mod verif_map;\n")
    for rel, modname, hpath in harness_mods:
        f = src / rel
        f.write_text(f.read_text() + f'\n#[cfg(kani)]\n#[path = "{hpath}"]\nmod {modname};\n')
    pkg = sc.root / "h_session"
    pkg.mkdir(parents=True, exist_ok=True)
    toml = (VERIF / "harness" / "session" / "Cargo.toml.in").read_text()
    toml = toml.replace("@SRC@", str(src)).replace("@SHIMS@", str(VERIF / "shims"))
    (pkg / "Cargo.toml").write_text(toml)
    return {"pkg_dir": pkg, "rewrites": {"pavex_session": totals, "px_workspace_hack": "hakari section emptied"}}


SESSION_SHIM_ASSUMPTIONS = [
    "de-async rewrite (async fn -> fn, .await removed, #[async_trait] = identity): faithful for an executor whose awaited futures never suspend; the harness store answers immediately; concurrent use of one Session is excluded by its !Send/!Sync design",
    "std::collections::HashMap -> verif_map::HashMap (3-slot, heap-free finite map with the same API subset; keys never dropped): hashing and more than 3 keys per map are outside the claim",
    "serde_json shim: Value = Null | Bool | Number(i64) (Copy); to_string records the tokens emitted by the real derived Serialize impl of WireClientState, from_str replays them through the real derived Deserialize; JSON text syntax and nested values are outside",
    "uuid shim: 128 opaque bits as two u64; new_v4() returns a value distinct from every id chosen by the harness (fresh-id contract), so the 16-attempt collision loop of cycle_id is cut after its first iteration",
    "pavex shim: cookie types are plain records with the setter names used by pavex_session; Processor::will_encrypt/will_sign answer from two arbitrary bools; registration attribute macros are the identity",
    "tracing / pavex_tracing shims: logging has an empty body; anyhow shim: opaque error value",
    "the storage backend is a 3-slot array implementing the real SessionStorageBackend trait with plain map semantics (no expiry fault unless the harness says so)",
    "Kani 0.68 / CBMC 6.11 / CaDiCaL trusted; results hold within each harness's stated bound only",
]
