use std::borrow::Cow;
use std::mem::ManuallyDrop;
pub struct M<K> { slots: [Option<(ManuallyDrop<K>, u8)>; 2] }
impl<K> M<K> {
    pub fn clear(&mut self) { self.slots[0] = None; self.slots[1] = None; }
    pub fn clear2(&mut self) { unsafe { std::ptr::write(&mut self.slots[0], None); std::ptr::write(&mut self.slots[1], None); } }
    pub fn len(&self) -> usize { self.slots[0].is_some() as usize + self.slots[1].is_some() as usize }
}
pub enum E<K> { A { m: M<K> }, B { m: M<K> } }
#[cfg(kani)]
mod h {
    use super::*;
    #[kani::proof]
    fn cow_clear() {
        let mut e: E<Cow<'static, str>> = E::B { m: M { slots: [Some((ManuallyDrop::new(Cow::Borrowed("b")), 1)), None] } };
        match &mut e { E::B { m } => { m.clear(); assert!(m.len() == 0, "cow inner"); } _ => {} }
    }
    #[kani::proof]
    fn cow_clear2() {
        let mut e: E<Cow<'static, str>> = E::B { m: M { slots: [Some((ManuallyDrop::new(Cow::Borrowed("b")), 1)), None] } };
        match &mut e { E::B { m } => { m.clear2(); assert!(m.len() == 0, "cow inner2"); } _ => {} }
    }
    #[kani::proof]
    fn u8_clear() {
        let mut e: E<u8> = E::B { m: M { slots: [Some((ManuallyDrop::new(7), 1)), None] } };
        match &mut e { E::B { m } => { m.clear(); assert!(m.len() == 0, "u8 inner"); } _ => {} }
    }
    #[kani::proof]
    fn str_clear() {
        let mut e: E<&'static str> = E::B { m: M { slots: [Some((ManuallyDrop::new("b"), 1)), None] } };
        match &mut e { E::B { m } => { m.clear(); assert!(m.len() == 0, "str inner"); } _ => {} }
    }
    #[kani::proof]
    fn cow_noenum() {
        let mut m: M<Cow<'static, str>> = M { slots: [Some((ManuallyDrop::new(Cow::Borrowed("b")), 1)), None] };
        m.clear(); assert!(m.len() == 0, "cow noenum");
    }
}
