#[cfg(kani)]
mod h {
    fn str_eq(a: &str, b: &str) -> bool {
        let (a, b) = (a.as_bytes(), b.as_bytes());
        if a.len() != b.len() { return false; }
        let mut i = 0;
        while i < a.len() { if a[i] != b[i] { return false; } i += 1; }
        true
    }
    #[kani::proof]
    #[kani::unwind(5)]
    fn clone_ite() {
        let pick: bool = kani::any();
        let name = if pick { "id".to_string() } else { "s".to_string() };
        let n2 = name.clone();
        assert!(n2.len() == name.len(), "len equal");
        assert!(str_eq(&n2, &name), "clone equals");
        assert!(n2 == name, "clone == ");
    }
    #[kani::proof]
    #[kani::unwind(5)]
    fn clone_concrete() {
        let name = "id".to_string();
        let n2 = name.clone();
        assert!(str_eq(&n2, &name), "clone equals concrete");
    }
    #[kani::proof]
    #[kani::unwind(5)]
    fn clone_symbolic_byte() {
        let x: u8 = kani::any();
        kani::assume(x == b'i' || x == b's');
        let name = unsafe { String::from_utf8_unchecked(vec![x]) };
        let n2 = name.clone();
        assert!(str_eq(&n2, &name), "clone equals symbolic byte");
    }
}
#[cfg(kani)]
mod h2 {
    fn str_eq(a: &str, b: &str) -> bool {
        let (a, b) = (a.as_bytes(), b.as_bytes());
        if a.len() != b.len() { return false; }
        let mut i = 0;
        while i < a.len() { if a[i] != b[i] { return false; } i += 1; }
        true
    }
    #[kani::proof]
    #[kani::unwind(5)]
    fn clone_ite_same_len() {
        let pick: bool = kani::any();
        let name = if pick { "id".to_string() } else { "si".to_string() };
        let n2 = name.clone();
        assert!(str_eq(&n2, &name), "clone equals same len");
    }
    #[kani::proof]
    #[kani::unwind(5)]
    fn clone_ite_same_len_eqop() {
        let pick: bool = kani::any();
        let name = if pick { "id".to_string() } else { "si".to_string() };
        let n2 = name.clone();
        assert!(n2.as_str() == name.as_str(), "clone == same len");
    }
}
#[cfg(kani)]
mod h3 {
    #[kani::proof]
    #[kani::unwind(5)]
    fn clone_two_bytes() {
        let x: u8 = kani::any();
        kani::assume(x == b'd' || x == b'x');
        let name = unsafe { String::from_utf8_unchecked(vec![b'i', x]) };
        let n2 = name.clone();
        assert!(n2.as_bytes()[0] == name.as_bytes()[0], "b0");
        assert!(n2.as_bytes()[1] == name.as_bytes()[1], "b1");
    }
    struct Cfg { name: String, other: Option<String> }
    #[kani::proof]
    #[kani::unwind(5)]
    fn clone_two_bytes_boxed() {
        let x: u8 = kani::any();
        kani::assume(x == b'd' || x == b'x');
        let name = unsafe { String::from_utf8_unchecked(vec![b'i', x]) };
        let cfg: &'static Cfg = Box::leak(Box::new(Cfg { name, other: Some("/".to_string()) }));
        let n2 = cfg.name.clone();
        let c: std::borrow::Cow<'static, str> = n2.into();
        assert!(c.as_bytes()[0] == cfg.name.as_bytes()[0], "bb0");
        assert!(c.as_bytes()[1] == cfg.name.as_bytes()[1], "bb1");
    }
}
#[cfg(kani)]
mod h4 {
    use std::borrow::Cow;
    #[derive(Clone)]
    struct Cookie { name: String, domain: Option<String>, path: Option<String>, secure: bool }
    impl Default for Cookie { fn default() -> Self { Cookie { name: "id".to_string(), domain: None, path: Some("/".to_string()), secure: true } } }
    #[derive(Default, Clone)]
    struct Cfg { cookie: Cookie, n: u32 }
    struct RC<'c> { name: Cow<'c, str>, value: Cow<'c, str>, domain: Option<Cow<'c, str>> }
    impl<'c> RC<'c> { fn new<N: Into<Cow<'c, str>>, V: Into<Cow<'c, str>>>(n: N, v: V) -> Self { RC { name: n.into(), value: v.into(), domain: None } } }
    fn any_cookie() -> Cookie {
        let mut c = Cookie::default();
        let x: u8 = kani::any();
        kani::assume(x == b'd' || x == b'x');
        c.name = unsafe { String::from_utf8_unchecked(vec![b'i', x]) };
        c.domain = if kani::any() { Some("d".to_string()) } else { None };
        c.path = if kani::any() { Some("/p".to_string()) } else { None };
        c.secure = kani::any();
        c
    }
    #[kani::proof]
    #[kani::unwind(5)]
    fn assign_then_clone() {
        let cc = any_cookie();
        let mut c = Cfg::default();
        c.cookie = cc;
        let cfg: &'static Cfg = Box::leak(Box::new(c));
        let name = &cfg.cookie.name;
        let b1 = name.as_bytes()[1];
        let rc = RC::new(name.clone(), String::new());
        assert!(rc.name.as_bytes()[1] == b1, "h4 after new");
        std::mem::forget(rc);
    }
}
#[cfg(kani)]
mod h4a {
    use std::borrow::Cow;
    #[derive(Clone)]
    struct Cookie { name: String, domain: Option<String>, path: Option<String>, secure: bool }
    impl Default for Cookie { fn default() -> Self { Cookie { name: "id".to_string(), domain: None, path: Some("/".to_string()), secure: true } } }
    #[derive(Default, Clone)]
    struct Cfg { cookie: Cookie, n: u32 }
    struct RC<'c> { name: Cow<'c, str>, value: Cow<'c, str>, domain: Option<Cow<'c, str>> }
    impl<'c> RC<'c> { fn new<N: Into<Cow<'c, str>>, V: Into<Cow<'c, str>>>(n: N, v: V) -> Self { RC { name: n.into(), value: v.into(), domain: None } } }
    fn any_cookie() -> Cookie {
        let mut c = Cookie::default();
        let x: u8 = kani::any();
        kani::assume(x == b'd' || x == b'x');
        c.name = unsafe { String::from_utf8_unchecked(vec![b'i', x]) };
        c.domain = if kani::any() { Some("d".to_string()) } else { None };
        c.path = if kani::any() { Some("/p".to_string()) } else { None };
        c.secure = kani::any();
        c
    }
    #[kani::proof]
    #[kani::unwind(5)]
    fn assign_then_clone() {
        let cc = any_cookie();
        let mut c = Cfg::default();
        c.cookie = cc;
        let cfg: &'static Cfg = Box::leak(Box::new(c));
        let name = &cfg.cookie.name;
        let b1 = name.as_bytes()[1];
        let rc = RC::new(name.clone(), "");
        assert!(rc.name.as_bytes()[1] == b1, "h4a");
        std::mem::forget(rc);
    }
}
#[cfg(kani)]
mod h4b {
    use std::borrow::Cow;
    #[derive(Clone)]
    struct Cookie { name: String, domain: Option<String>, path: Option<String>, secure: bool }
    impl Default for Cookie { fn default() -> Self { Cookie { name: "id".to_string(), domain: None, path: Some("/".to_string()), secure: true } } }
    #[derive(Default, Clone)]
    struct Cfg { cookie: Cookie, n: u32 }
    struct RC<'c> { name: Cow<'c, str>, value: Cow<'c, str>, domain: Option<Cow<'c, str>> }
    impl<'c> RC<'c> { fn new<N: Into<Cow<'c, str>>, V: Into<Cow<'c, str>>>(n: N, v: V) -> Self { RC { name: n.into(), value: v.into(), domain: None } } }
    fn any_cookie() -> Cookie {
        let mut c = Cookie::default();
        let x: u8 = kani::any();
        kani::assume(x == b'd' || x == b'x');
        c.name = unsafe { String::from_utf8_unchecked(vec![b'i', x]) };
        c.domain = if kani::any() { Some("d".to_string()) } else { None };
        c.path = if kani::any() { Some("/p".to_string()) } else { None };
        c.secure = kani::any();
        c
    }
    #[kani::proof]
    #[kani::unwind(5)]
    fn assign_then_clone() {
        let cc = any_cookie();
        let mut c = Cfg::default();
        c.cookie = cc;
        let cfg = &c;
        let name = &cfg.cookie.name;
        let b1 = name.as_bytes()[1];
        let rc = RC::new(name.clone(), String::new());
        assert!(rc.name.as_bytes()[1] == b1, "h4b");
        std::mem::forget(rc);
    }
}
#[cfg(kani)]
mod h4c {
    use std::borrow::Cow;
    #[derive(Clone)]
    struct Cookie { name: String, domain: Option<String>, path: Option<String>, secure: bool }
    impl Default for Cookie { fn default() -> Self { Cookie { name: "id".to_string(), domain: None, path: Some("/".to_string()), secure: true } } }
    #[derive(Default, Clone)]
    struct Cfg { cookie: Cookie, n: u32 }
    struct RC<'c> { name: Cow<'c, str>, value: Cow<'c, str>, domain: Option<Cow<'c, str>> }
    impl<'c> RC<'c> { fn new<N: Into<Cow<'c, str>>, V: Into<Cow<'c, str>>>(n: N, v: V) -> Self { RC { name: n.into(), value: v.into(), domain: None } } }
    fn any_cookie() -> Cookie {
        let mut c = Cookie::default();
        let x: u8 = kani::any();
        kani::assume(x == b'd' || x == b'x');
        c.name = unsafe { String::from_utf8_unchecked(vec![b'i', x]) };

        c.secure = kani::any();
        c
    }
    #[kani::proof]
    #[kani::unwind(5)]
    fn assign_then_clone() {
        let cc = any_cookie();
        let mut c = Cfg::default();
        c.cookie = cc;
        let cfg: &'static Cfg = Box::leak(Box::new(c));
        let name = &cfg.cookie.name;
        let b1 = name.as_bytes()[1];
        let rc = RC::new(name.clone(), String::new());
        assert!(rc.name.as_bytes()[1] == b1, "h4c");
        std::mem::forget(rc);
    }
}
#[cfg(kani)]
mod h4d {
    use std::borrow::Cow;
    #[derive(Clone)]
    struct Cookie { name: String, domain: Option<String>, path: Option<String>, secure: bool }
    impl Default for Cookie { fn default() -> Self { Cookie { name: "id".to_string(), domain: None, path: Some("/".to_string()), secure: true } } }
    #[derive(Default, Clone)]
    struct Cfg { cookie: Cookie, n: u32 }
    struct RC<'c> { name: Cow<'c, str>, value: Cow<'c, str>, domain: Option<Cow<'c, str>> }
    impl<'c> RC<'c> { fn new<N: Into<Cow<'c, str>>, V: Into<Cow<'c, str>>>(n: N, v: V) -> Self { RC { name: n.into(), value: v.into(), domain: None } } }
    fn any_cookie() -> Cookie {
        let mut c = Cookie::default();
        let x: u8 = kani::any();
        kani::assume(x == b'd' || x == b'x');
        c.name = unsafe { String::from_utf8_unchecked(vec![b'i', x]) };
        c.domain = if kani::any() { Some("d".to_string()) } else { None };
        c.path = if kani::any() { Some("/p".to_string()) } else { None };
        c.secure = kani::any();
        c
    }
    #[kani::proof]
    #[kani::unwind(5)]
    fn assign_then_clone() {
        let cc = any_cookie();
        let mut c = Cfg::default();
        c.cookie = cc;
        let cfg: &'static Cfg = Box::leak(Box::new(c));
        let name = &cfg.cookie.name;
        let b1 = name.as_bytes()[1];
        let n2 = name.clone();
        assert!(n2.as_bytes()[1] == b1, "h4d");
        std::mem::forget(n2);
    }
}
#[cfg(kani)]
mod h4e {
    use std::borrow::Cow;
    #[derive(Clone)]
    struct Cookie { name: String, domain: Option<String>, path: Option<String>, secure: bool }
    impl Default for Cookie { fn default() -> Self { Cookie { name: "id".to_string(), domain: None, path: Some("/".to_string()), secure: true } } }
    #[derive(Default, Clone)]
    struct Cfg { cookie: Cookie, n: u32 }
    struct RC<'c> { name: Cow<'c, str>, value: Cow<'c, str>, domain: Option<Cow<'c, str>> }
    impl<'c> RC<'c> { fn new<N: Into<Cow<'c, str>>, V: Into<Cow<'c, str>>>(n: N, v: V) -> Self { RC { name: n.into(), value: v.into(), domain: None } } }
    fn any_cookie() -> Cookie {
        let mut c = Cookie::default();
        let x: u8 = kani::any();
        kani::assume(x == b'd' || x == b'x');
        c.name = unsafe { String::from_utf8_unchecked(vec![b'i', x]) };
        c.domain = if kani::any() { Some("d".to_string()) } else { None };
        c.path = if kani::any() { Some("/p".to_string()) } else { None };
        c.secure = kani::any();
        c
    }
    #[kani::proof]
    #[kani::unwind(5)]
    fn assign_then_clone() {
        let cc = any_cookie();
        let mut c = Cfg::default();
        c.cookie = cc;
        static mut SLOT: std::mem::MaybeUninit<Cfg> = std::mem::MaybeUninit::uninit();
        let cfg: &'static Cfg = unsafe { let p = &raw mut SLOT; (*p).write(c); (*p).assume_init_ref() };
        let name = &cfg.cookie.name;
        let b1 = name.as_bytes()[1];
        let rc = RC::new(name.clone(), String::new());
        assert!(rc.name.as_bytes()[1] == b1, "h4e static");
        std::mem::forget(rc);
    }
}
#[cfg(kani)]
mod h4f {
    use std::borrow::Cow;
    #[derive(Clone)]
    struct Cookie { name: String, domain: Option<String>, path: Option<String>, secure: bool }
    impl Default for Cookie { fn default() -> Self { Cookie { name: "id".to_string(), domain: None, path: Some("/".to_string()), secure: true } } }
    #[derive(Default, Clone)]
    struct Cfg { cookie: Cookie, n: u32 }
    struct RC<'c> { name: Cow<'c, str>, value: Cow<'c, str>, domain: Option<Cow<'c, str>> }
    impl<'c> RC<'c> { fn new<N: Into<Cow<'c, str>>, V: Into<Cow<'c, str>>>(n: N, v: V) -> Self { RC { name: n.into(), value: v.into(), domain: None } } }
    fn any_cookie() -> Cookie {
        let mut c = Cookie::default();
        let x: u8 = kani::any();
        kani::assume(x == b'd' || x == b'x');
        c.name = unsafe { String::from_utf8_unchecked(vec![b'i', x]) };
        c.domain = if kani::any() { Some("d".to_string()) } else { None };
        c.path = if kani::any() { Some("/p".to_string()) } else { None };
        c.secure = kani::any();
        c
    }
    #[kani::proof]
    #[kani::unwind(5)]
    fn assign_then_clone() {
        let cc = any_cookie();
        let mut c = Cfg::default();
        c.cookie = cc;
        let holder = std::mem::ManuallyDrop::new(c);
        let cfg: &'static Cfg = unsafe { &*(&*holder as *const Cfg) };
        let name = &cfg.cookie.name;
        let b1 = name.as_bytes()[1];
        let rc = RC::new(name.clone(), String::new());
        assert!(rc.name.as_bytes()[1] == b1, "h4f stack");
        std::mem::forget(rc);
    }
}
