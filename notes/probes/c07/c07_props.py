"""C07, one clause only (the default fallback answers 405 with a matching Allow header / 404): the real
runtime/pavex/src/router/allowed_methods.rs and fallback.rs (de-asynced), path-included into a small root crate
and compiled against contract shims of http and smallvec; harness in /verif/harness/router/c07.rs."""
from __future__ import annotations

import hashlib
import json
import os
import re
import shutil
import subprocess
from pathlib import Path

from .. import core, session
from ..core import CACHE, VERIF, HarnessResult, Scratch, env_offline, log, parse_harness_specs, rewrite_tokens

PID = "C07"
HDIR = VERIF / "harness" / "router"
ROUTER_REL = "runtime/pavex/src/router"


def prepare(sc: Scratch) -> dict:
    pkg = sc.root / "h_router"
    if pkg.exists():
        shutil.rmtree(pkg)
    pkg.mkdir(parents=True)
    hcopy = pkg / "c07.rs"
    shutil.copy(HDIR / "c07.rs", hcopy)
    shutil.copy(VERIF / "harness" / "nd.rs", pkg / "nd.rs")
    src = (sc.repo / ROUTER_REL / "fallback.rs").read_text()
    new, counts = rewrite_tokens(src, core.DEASYNC_RULES)
    if re.search(r"\basync\b|\.\s*await\b", core._mask_non_code(new)):
        raise core.RewriteError("residual async/.await in router/fallback.rs after the de-async rewrite")
    (pkg / "fallback.rs").write_text(new)
    root = pkg / "root.rs"
    root.write_text(
        "#![allow(dead_code, unused_imports)]\n"
        "pub mod http { pub use ::http::*; }\n"
        "// stand-in for pavex::Response: the status and the headers the fallback sets\n"
        "pub struct Response { pub status: u16, pub allow: Option<::http::HeaderValue>, pub other_headers: u8 }\n"
        "impl Response {\n"
        "    pub fn method_not_allowed() -> Self { Response { status: 405, allow: None, other_headers: 0 } }\n"
        "    pub fn not_found() -> Self { Response { status: 404, allow: None, other_headers: 0 } }\n"
        "    pub fn ok() -> Self { Response { status: 200, allow: None, other_headers: 0 } }\n"
        "    pub fn no_content() -> Self { Response { status: 204, allow: None, other_headers: 0 } }\n"
        "    pub fn bad_request() -> Self { Response { status: 400, allow: None, other_headers: 0 } }\n"
        "    pub fn not_implemented() -> Self { Response { status: 501, allow: None, other_headers: 0 } }\n"
        "    pub fn internal_server_error() -> Self { Response { status: 500, allow: None, other_headers: 0 } }\n"
        "    pub fn insert_header(mut self, key: ::http::HeaderName, value: ::http::HeaderValue) -> Self {\n"
        "        if key == ::http::header::ALLOW { self.allow = Some(value); } else { self.other_headers += 1; }\n"
        "        self\n"
        "    }\n"
        "    pub fn append_header(self, key: ::http::HeaderName, value: ::http::HeaderValue) -> Self { self.insert_header(key, value) }\n"
        "}\n"
        "pub mod router {\n"
        f'    #[path = "{sc.repo / ROUTER_REL / "allowed_methods.rs"}"]\n    mod allowed_methods;\n'
        f'    #[path = "{pkg / "fallback.rs"}"]\n    mod fallback;\n'
        "    pub use allowed_methods::{AllowedMethods, MethodAllowList, method_allow_list};\n"
        "    pub use fallback::*;\n"
        "}\n"
        f'#[cfg(kani)]\n#[path = "{hcopy}"]\nmod verif_c07;\n')
    toml = (HDIR / "Cargo.toml.in").read_text()
    (pkg / "Cargo.toml").write_text(toml.replace("@ROOT@", str(root)).replace("@SHIMS@", str(VERIF / "shims")))
    specs = parse_harness_specs((HDIR / "c07.rs").read_text())
    for s in specs:
        s.qual = "verif_c07::"
    return {
        "pkg_dir": pkg,
        "target_dir": CACHE / "target-router",
        "specs": specs,
        "kani_args": [],
        "jobs": {"quick": 2, "thorough": 2},
        "rewrites": {"fallback.rs": {"de-async": counts}, "path_included_unmodified": [f"{ROUTER_REL}/allowed_methods.rs"]},
        "assumptions": [
            "ONE clause of C07 only: the runtime's default fallback and the Allow header it builds; conflict detection, fallback assignment and the generated router (pavexc) are outside",
            "de-async rewrite of router/fallback.rs (async fn -> fn): the fallback awaits nothing",
            "http shim: Method::as_str, HeaderValue::from_str (visible ASCII), header::ALLOW; smallvec shim: a growable sequence (the inline/spilled representation is outside); Response is a stand-in record (status, Allow value)",
            "Formatter::pad stubbed by write_str (its contract when neither width nor precision is set)",
            "method lists are constants per call site (9 lists); Kani 0.68 / CBMC 6.11 / CaDiCaL trusted",
        ],
        "evidence_extra": {
            "encoded_files": [f"{ROUTER_REL}/allowed_methods.rs", f"{ROUTER_REL}/fallback.rs"],
            "engine": "Kani 0.68.0 -> CBMC 6.11.0 (CaDiCaL) over the MIR of the real runtime router helpers against contract shims",
            "outside_the_claim": ["route / method / domain conflict detection (pavexc)", "fallback assignment by scope and prefix (pavexc)",
                                  "the generated Router::route (matchit lookup, method match arms, AllowedMethods construction, host normalisation)",
                                  "custom fallbacks"],
        },
    }


def _native_replay(sc: Scratch, script_path: Path, log_path: Path) -> tuple[bool | None, str]:
    target = sc.repo / ROUTER_REL / "allowed_methods.rs"
    src = target.read_text()
    if "mod verif_replay_c07" not in src:
        target.write_text(src + "\n" + (HDIR / "replay_native.rs").read_text())
    env = env_offline()
    env["VERIF_C07_SCRIPT"] = str(Path(script_path).resolve())
    env["CARGO_TARGET_DIR"] = str(CACHE / "target-native-pavex")
    env["RUSTFLAGS"] = "--cfg verif_replay"
    p = subprocess.run(["cargo", "test", "--offline", "-p", "pavex", "--lib", "verif_replay_c07", "--", "--nocapture", "--test-threads", "1"],
                       cwd=sc.repo, env=env, stdout=subprocess.PIPE, stderr=subprocess.STDOUT, text=True)
    log_path.parent.mkdir(parents=True, exist_ok=True)
    log_path.write_text(p.stdout)
    m = re.search(r"C07-REPLAY (REPRODUCED|NOT-REPRODUCED|MALFORMED)(.*)$", p.stdout, re.M)
    if not m:
        return None, "the native replay did not run (see %s)" % log_path
    return {"REPRODUCED": True, "NOT-REPRODUCED": False}.get(m.group(1)), m.group(0)


def confirm(sc: Scratch, prep: dict, r: HarnessResult, log_dir: Path) -> dict:
    role = f"{r.spec.name}: " + "; ".join(sorted({c["description"] for c in r.failed}))
    finds = session.native_search(prep, r.spec.name, log_dir / f"{r.spec.name}.native-search.log", int(os.environ.get("VERIF_SEED", "0") or 0))
    rep_dir = VERIF / "replays" / "generated" / PID
    rep_dir.mkdir(parents=True, exist_ok=True)
    first, seen = None, set()
    for tr in finds:
        recs = [l for l in tr if l.get("kind") == "c07"]
        if not recs:
            continue
        script = {"all": recs[0]["all"], "methods": recs[0]["methods"], "_origin": {"harness": r.spec.name, "failed": role}}
        h = hashlib.sha256(json.dumps(script, sort_keys=True).encode()).hexdigest()[:12]
        if h in seen:
            continue
        seen.add(h)
        rep = rep_dir / f"{r.spec.name}-{h}.json"
        rep.write_text(json.dumps(script, indent=1) + "\n")
        first = first or rep
        ok, detail = _native_replay(sc, rep, log_dir / f"{r.spec.name}.native.log")
        if ok is True:
            return {"reproduced": True, "replay": str(rep), "role": role, "detail": detail}
        if rep != first:
            rep.unlink(missing_ok=True)
    if first is not None:
        return {"reproduced": False, "replay": str(first), "role": role,
                "detail": f"{len(finds)} concrete failing inputs of the shim build do not misbehave on the real crate"}
    return {"reproduced": None, "role": role, "detail": "native search found no failing input"}


def replay(path: Path) -> int:
    with Scratch(PID + "-replay") as sc:
        ok, detail = _native_replay(sc, path, CACHE / "logs" / PID / "replay.native.log")
    log(f"replay {path}: {detail}")
    if ok is True:
        print(f"VIOLATION property={PID} replay={path}", flush=True)
        return 1
    return 0 if ok is False else 2
