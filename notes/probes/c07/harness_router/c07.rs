// ------------------------------------------------------------------------------------------------
// Verification harnesses for the one clause of C07 that lives in the runtime crate: "If the path
// matches but no method does, [..] the default fallback answers 405 with a matching Allow header;
// if nothing matches [..] (default: 404)". The real runtime/pavex/src/router/allowed_methods.rs and
// fallback.rs (de-asynced) against contract shims of `http` and `smallvec`; `Response` is a stand-in
// record (status + headers set). Everything else C07 states - conflict detection, fallback
// assignment, the generated router - is pavexc and is NOT decided here (DESIGN.md, C07).
// The method list is a constant per call site (a symbolic list makes the header text a heap string of
// symbolic length); the solver picks the call site.
// ------------------------------------------------------------------------------------------------
#![allow(dead_code, unused_imports)]
#[path = "nd.rs"]
mod nd;
use crate::Response;
use crate::http::Method;
use crate::router::{AllowedMethods, MethodAllowList, default_fallback};

/// `Formatter::pad` without width / precision is `write_str` (the real one drags `str::count` in)
fn pad_stub<'a: 'a>(f: &mut std::fmt::Formatter<'a>, s: &str) -> std::fmt::Result {
    f.write_str(s)
}

fn name_eq(a: &[u8], b: &str) -> bool {
    let b = b.as_bytes();
    if a.len() != b.len() {
        return false;
    }
    let mut i = 0;
    while i < a.len() {
        if a[i] != b[i] {
            return false;
        }
        i += 1;
    }
    true
}

/// The Allow header as a client reads it (RFC 9110: a comma-separated list, optional whitespace after
/// the comma): the methods of the list, each once. Compared against the two usual spellings of the
/// list in registration order, with loops bounded by the *expected* text (the length of the header
/// value is not a constant for CBMC: it went through `String` growth). A header that lists the same
/// set in another order fails here and is then judged, as a set, by the native replay.
fn allow_matches(value: &[u8], methods: &[Method]) -> bool {
    let mut tight = true;
    let mut spaced = true;
    let (mut pt, mut ps) = (0usize, 0usize);
    let mut k = 0;
    while k < methods.len() {
        let name = methods[k].as_str().as_bytes();
        if k > 0 {
            tight = tight && pt < value.len() && value[pt] == b',';
            pt += 1;
            spaced = spaced && ps + 1 < value.len() && value[ps] == b',' && value[ps + 1] == b' ';
            ps += 2;
        }
        let mut j = 0;
        while j < name.len() {
            tight = tight && pt < value.len() && value[pt] == name[j];
            pt += 1;
            spaced = spaced && ps < value.len() && value[ps] == name[j];
            ps += 1;
            j += 1;
        }
        k += 1;
    }
    (tight && value.len() == pt) || (spaced && value.len() == ps)
}

fn run(methods: &[Method], all: bool) -> u16 {
    nd::trace(|| {
        let names: Vec<String> = methods.iter().map(|m| format!("\"{}\"", m.as_str())).collect();
        format!("{{\"kind\":\"c07\",\"all\":{all},\"methods\":[{}]}}", names.join(","))
    });
    let allowed = if all { AllowedMethods::All } else { AllowedMethods::from(MethodAllowList::from_iter(methods.iter().cloned())) };
    if let AllowedMethods::Some(l) = &allowed {
        assert!(l.len() == methods.len() && l.is_empty() == methods.is_empty(), "the allow list does not hold the methods it was built from");
    }
    let r: Response = default_fallback(&allowed);
    if all || methods.is_empty() {
        assert!(r.status == 404, "no route matches the path (or every method is accepted): the default fallback must answer 404");
        assert!(r.allow.is_none(), "a 404 carries an Allow header");
    } else {
        assert!(r.status == 405, "the path matches but the method does not: the default fallback must answer 405");
        match &r.allow {
            None => panic!("the 405 response carries no Allow header"),
            Some(v) => assert!(allow_matches(v.as_bytes(), methods), "the Allow header does not list exactly the methods registered for the path"),
        }
    }
    let s = r.status;
    std::mem::forget(r);
    std::mem::forget(allowed);
    s
}

// @tier quick
// @obligation default_fallback + AllowedMethods::allow_header_value on method lists of 0..=6 methods (standard methods and one extension method), constant per call site: a non-empty list yields 405 with an Allow header whose comma-separated tokens are exactly the methods of the list, each once; an empty list or AllowedMethods::All yields 404 without Allow
// @bounds 9 call sites: All, [], [GET], [POST], [GET,POST], [GET,HEAD,POST], [DELETE,GET,PATCH,POST,PUT] (the inline capacity), six methods (spilled), [GET,PURGE]
// @functions default_fallback, AllowedMethods::allow_header_value, MethodAllowList::allow_header_value, allowed_methods::join, MethodAllowList::from_iter
// @timeout 900
#[kani::proof]
#[kani::unwind(60)]
#[kani::stub(std::fmt::Formatter::pad, pad_stub)]
fn c07_default_fallback_allow_header() {
    let c = nd::u8_below(9);
    let s = match c {
        0 => run(&[], true),
        1 => run(&[], false),
        2 => run(&[Method::GET], false),
        3 => run(&[Method::POST], false),
        4 => run(&[Method::GET, Method::POST], false),
        5 => run(&[Method::GET, Method::HEAD, Method::POST], false),
        6 => run(&[Method::DELETE, Method::GET, Method::PATCH, Method::POST, Method::PUT], false),
        7 => run(&[Method::DELETE, Method::GET, Method::OPTIONS, Method::PATCH, Method::POST, Method::PUT], false),
        _ => run(&[Method::GET, Method::PURGE], false),
    };
    kani::cover!(c == 6 && s == 405, "five methods: 405");
    kani::cover!(c == 0 && s == 404, "all methods: 404");
}

#[cfg(test)]
mod native_search {
    use super::*;
    fn reset() {}
    #[test]
    fn c07_default_fallback_allow_header() { nd::search("c07_default_fallback_allow_header", super::c07_default_fallback_allow_header, reset) }
}
