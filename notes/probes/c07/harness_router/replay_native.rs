
// ------------------------------------------------------------------------------------------------
// Native replay of a C07 (default fallback / Allow header) counterexample against the REAL pavex crate
// (appended by /verif to the scratch copy of router/allowed_methods.rs; never part of /repo).
// Script (JSON, path in $VERIF_C07_SCRIPT): {"all": bool, "methods": ["GET", ..]}
// ------------------------------------------------------------------------------------------------
#[cfg(all(test, verif_replay))]
mod verif_replay_c07 {
    use crate::http::Method;
    use crate::router::{AllowedMethods, MethodAllowList, default_fallback};

    #[tokio::test]
    async fn verif_replay_c07() {
        let Ok(path) = std::env::var("VERIF_C07_SCRIPT") else {
            println!("C07-REPLAY MALFORMED no script given");
            return;
        };
        let Some(v) = std::fs::read_to_string(&path).ok().and_then(|s| serde_json::from_str::<serde_json::Value>(&s).ok()) else {
            println!("C07-REPLAY MALFORMED cannot read {path}");
            return;
        };
        let all = v["all"].as_bool().unwrap_or(false);
        let names: Vec<String> = v["methods"].as_array().map(|a| a.iter().filter_map(|x| x.as_str().map(|s| s.to_string())).collect()).unwrap_or_default();
        let methods: Vec<Method> = names.iter().map(|n| Method::from_bytes(n.as_bytes()).unwrap()).collect();
        let allowed = if all { AllowedMethods::All } else { AllowedMethods::from(MethodAllowList::from_iter(methods.iter().cloned())) };
        let r = default_fallback(&allowed).await;
        let status = r.status().as_u16();
        let allow: Vec<String> = r.headers().get_all(crate::http::header::ALLOW).iter().map(|v| v.to_str().unwrap_or("<not ascii>").to_string()).collect();
        println!("C07-REPLAY outcome: status={status} allow={allow:?}");
        let mut problems = Vec::new();
        if all || names.is_empty() {
            if status != 404 {
                problems.push(format!("expected 404, got {status}"));
            }
            if !allow.is_empty() {
                problems.push("a 404 carries an Allow header".to_string());
            }
        } else {
            if status != 405 {
                problems.push(format!("expected 405, got {status}"));
            }
            let mut got: Vec<String> = allow.iter().flat_map(|v| v.split(',').map(|t| t.trim().to_string()).collect::<Vec<_>>()).filter(|t| !t.is_empty()).collect();
            let mut want = names.clone();
            got.sort();
            want.sort();
            if got != want {
                problems.push(format!("Allow lists {got:?}, the path accepts {want:?}"));
            }
        }
        if problems.is_empty() {
            println!("C07-REPLAY NOT-REPRODUCED the real default fallback behaves as documented on this script");
        } else {
            println!("C07-REPLAY REPRODUCED {}", problems.join("; "));
        }
    }
}
