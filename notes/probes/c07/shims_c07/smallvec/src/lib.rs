//! Verification shim for `smallvec` (C07, allowed methods): a growable sequence with the part of the
//! `SmallVec` surface first-party code uses. Contract kept: elements in insertion order; `len`,
//! `is_empty`, `iter`, `push`, `FromIterator`, `IntoIterator`, `Deref<Target = [T]>`. Outside: the
//! inline/spilled representation (the real crate's unsafe storage ran CBMC out of memory on a 3-byte
//! insert).
pub unsafe trait Array {
    type Item;
    fn size() -> usize;
}
unsafe impl<T, const N: usize> Array for [T; N] {
    type Item = T;
    fn size() -> usize {
        N
    }
}
pub struct SmallVec<A: Array> {
    v: Vec<A::Item>,
}
impl<A: Array> SmallVec<A> {
    pub fn new() -> Self {
        SmallVec { v: Vec::new() }
    }
    pub fn with_capacity(n: usize) -> Self {
        SmallVec { v: Vec::with_capacity(n) }
    }
    pub fn push(&mut self, x: A::Item) {
        self.v.push(x)
    }
    pub fn len(&self) -> usize {
        self.v.len()
    }
    pub fn is_empty(&self) -> bool {
        self.v.is_empty()
    }
    pub fn iter(&self) -> std::slice::Iter<'_, A::Item> {
        self.v.iter()
    }
    pub fn as_slice(&self) -> &[A::Item] {
        &self.v
    }
    pub fn inline_size(&self) -> usize {
        A::size()
    }
    pub fn spilled(&self) -> bool {
        self.v.len() > A::size()
    }
}
impl<A: Array> Default for SmallVec<A> {
    fn default() -> Self {
        Self::new()
    }
}
impl<A: Array> std::ops::Deref for SmallVec<A> {
    type Target = [A::Item];
    fn deref(&self) -> &[A::Item] {
        &self.v
    }
}
impl<A: Array> Clone for SmallVec<A>
where
    A::Item: Clone,
{
    fn clone(&self) -> Self {
        SmallVec { v: self.v.clone() }
    }
}
impl<A: Array> std::fmt::Debug for SmallVec<A> {
    fn fmt(&self, f: &mut std::fmt::Formatter<'_>) -> std::fmt::Result {
        f.write_str("SmallVec")
    }
}
impl<A: Array> FromIterator<A::Item> for SmallVec<A> {
    fn from_iter<I: IntoIterator<Item = A::Item>>(iter: I) -> Self {
        let mut s = SmallVec::new();
        for x in iter {
            s.v.push(x);
        }
        s
    }
}
impl<A: Array> Extend<A::Item> for SmallVec<A> {
    fn extend<I: IntoIterator<Item = A::Item>>(&mut self, iter: I) {
        for x in iter {
            self.v.push(x);
        }
    }
}
pub struct IntoIter<A: Array> {
    it: std::vec::IntoIter<A::Item>,
}
impl<A: Array> Iterator for IntoIter<A> {
    type Item = A::Item;
    fn next(&mut self) -> Option<A::Item> {
        self.it.next()
    }
}
impl<A: Array> IntoIterator for SmallVec<A> {
    type Item = A::Item;
    type IntoIter = IntoIter<A>;
    fn into_iter(self) -> IntoIter<A> {
        IntoIter { it: self.v.into_iter() }
    }
}
impl<'a, A: Array> IntoIterator for &'a SmallVec<A> {
    type Item = &'a A::Item;
    type IntoIter = std::slice::Iter<'a, A::Item>;
    fn into_iter(self) -> Self::IntoIter {
        self.v.iter()
    }
}
#[macro_export]
macro_rules! smallvec {
    ($($x:expr),* $(,)?) => {{ let mut s = $crate::SmallVec::new(); $( s.push($x); )* s }};
}
