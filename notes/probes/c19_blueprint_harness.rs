
// ------------------------------------------------------------------------------------------------
// Verification harnesses for C19 (what you register is what the compiler sees), appended by /verif to
// the scratch copy of runtime/pavex/src/blueprint/blueprint.rs (never part of /repo). The real,
// unshimmed `pavex` crate and the real `pavex_bp_schema` crate: a sequence of public builder calls
// chosen by the solver is executed on a real `Blueprint`, and the schema value that
// `Blueprint::persist` would serialise is compared, component by component, with the list of calls.
// `pavex_bp_schema::Location::caller` is stubbed (Kani does not support `caller_location`): every call
// gets the next line number of a counter, so that "the location recorded for a component is the one of
// the call that registered it" stays checkable.
// ------------------------------------------------------------------------------------------------
#[cfg(kani)]
mod verif_c19 {
    use super::Blueprint;
    use crate::blueprint::reflection::{AnnotationCoordinates, CreatedAt};
    use crate::blueprint::{
        CloningPolicy, Constructor, ErrorHandler, ErrorObserver, Lifecycle, Lint, PostProcessingMiddleware, PreProcessingMiddleware, Route,
        WrappingMiddleware,
    };
    use pavex_bp_schema as sch;

    static mut LINE: u32 = 0;
    #[track_caller]
    fn loc_stub() -> sch::Location {
        unsafe {
            LINE += 1;
            sch::Location { line: LINE, column: 7, file: String::new() }
        }
    }
    fn fmt_stub(_a: std::fmt::Arguments<'_>) -> String {
        String::new()
    }

    const IDS: [&str; 4] = ["K0", "K1", "K2", "K3"];
    const EH_IDS: [&str; 4] = ["E0", "E1", "E2", "E3"];
    fn coords(id: &'static str, macro_name: &'static str) -> AnnotationCoordinates {
        AnnotationCoordinates { id, created_at: CreatedAt { package_name: "pk", package_version: "1" }, macro_name }
    }
    fn same_coords(c: &sch::AnnotationCoordinates, id: &str, macro_name: &str) -> bool {
        c.id.as_bytes() == id.as_bytes()
            && c.macro_name.as_bytes() == macro_name.as_bytes()
            && c.created_at.package_name.as_bytes() == b"pk"
            && c.created_at.package_version.as_bytes() == b"1"
    }

    /// what one step of the call sequence did
    #[derive(Clone, Copy)]
    struct Step {
        kind: u8,
        line: u32,
        lifecycle: u8,  // 0 none, 1 singleton, 2 request-scoped, 3 transient
        cloning: u8,    // 0 none, 1 clone-if-necessary, 2 never-clone
        lint: u8,       // 0 none, 1.. = (lint, setting)
        eh: bool,
        eh_line: u32,
    }

    static mut KIND_LO: u8 = 0;
    static mut KIND_HI: u8 = 6;
    static mut LINTS: bool = true;
    fn one_step(bp: &mut Blueprint, i: usize) -> Step {
        let kind: u8 = kani::any();
        kani::assume(kind >= unsafe { KIND_LO } && kind < unsafe { KIND_HI });
        let mut st = Step { kind, line: 0, lifecycle: 0, cloning: 0, lint: 0, eh: false, eh_line: 0 };
        let eh: bool = kani::any();
        match kind {
            0 => {
                let mut r = bp.constructor(Constructor { coordinates: coords(IDS[i], "constructor") });
                st.line = unsafe { LINE };
                st.lifecycle = kani::any();
                kani::assume(st.lifecycle < 4);
                r = match st.lifecycle {
                    1 => r.lifecycle(Lifecycle::Singleton),
                    2 => r.lifecycle(Lifecycle::RequestScoped),
                    3 => r.lifecycle(Lifecycle::Transient),
                    _ => r,
                };
                st.cloning = kani::any();
                kani::assume(st.cloning < 3);
                r = match st.cloning {
                    1 => r.clone_if_necessary(),
                    2 => r.never_clone(),
                    _ => r,
                };
                st.lint = kani::any();
                kani::assume(st.lint < 4 && (unsafe { LINTS } || st.lint == 0));
                r = match st.lint {
                    1 => r.allow(Lint::Unused),
                    2 => r.warn(Lint::Unused),
                    3 => r.deny(Lint::ErrorFallback),
                    _ => r,
                };
                if eh {
                    let _ = r.error_handler(ErrorHandler { coordinates: coords(EH_IDS[i], "error_handler") });
                    st.eh = true;
                    st.eh_line = unsafe { LINE };
                }
            }
            1 => {
                let r = bp.wrap(WrappingMiddleware { coordinates: coords(IDS[i], "wrap") });
                st.line = unsafe { LINE };
                if eh {
                    let _ = r.error_handler(ErrorHandler { coordinates: coords(EH_IDS[i], "error_handler") });
                    st.eh = true;
                    st.eh_line = unsafe { LINE };
                }
            }
            2 => {
                let r = bp.pre_process(PreProcessingMiddleware { coordinates: coords(IDS[i], "pre_process") });
                st.line = unsafe { LINE };
                if eh {
                    let _ = r.error_handler(ErrorHandler { coordinates: coords(EH_IDS[i], "error_handler") });
                    st.eh = true;
                    st.eh_line = unsafe { LINE };
                }
            }
            3 => {
                let r = bp.post_process(PostProcessingMiddleware { coordinates: coords(IDS[i], "post_process") });
                st.line = unsafe { LINE };
                if eh {
                    let _ = r.error_handler(ErrorHandler { coordinates: coords(EH_IDS[i], "error_handler") });
                    st.eh = true;
                    st.eh_line = unsafe { LINE };
                }
            }
            4 => {
                let r = bp.route(Route { coordinates: coords(IDS[i], "route") });
                st.line = unsafe { LINE };
                if eh {
                    let _ = r.error_handler(ErrorHandler { coordinates: coords(EH_IDS[i], "error_handler") });
                    st.eh = true;
                    st.eh_line = unsafe { LINE };
                }
            }
            _ => {
                let _ = bp.error_observer(ErrorObserver { coordinates: coords(IDS[i], "error_observer") });
                st.line = unsafe { LINE };
            }
        }
        st
    }

    fn check_eh(got: &Option<sch::ErrorHandler>, st: &Step, i: usize) {
        match got {
            None => assert!(!st.eh, "an error handler registration was lost"),
            Some(h) => {
                assert!(st.eh, "an error handler appeared from nowhere");
                assert!(same_coords(&h.coordinates, EH_IDS[i], "error_handler"), "the error handler attached to a component is not the one registered for it");
                assert!(h.registered_at.line == st.eh_line, "the error handler carries another source location than its registration");
            }
        }
    }

    fn check_step(c: &sch::Component, st: &Step, i: usize) {
        match (st.kind, c) {
            (0, sch::Component::Constructor(k)) => {
                assert!(same_coords(&k.coordinates, IDS[i], "constructor"), "constructor coordinates changed");
                assert!(k.registered_at.line == st.line, "constructor location changed");
                let lc = match k.lifecycle {
                    None => 0,
                    Some(sch::Lifecycle::Singleton) => 1,
                    Some(sch::Lifecycle::RequestScoped) => 2,
                    Some(sch::Lifecycle::Transient) => 3,
                    #[allow(unreachable_patterns)]
                    Some(_) => 9,
                };
                assert!(lc == st.lifecycle, "the lifecycle that reaches the compiler is not the registered one");
                let cl = match k.cloning_policy {
                    None => 0,
                    Some(sch::CloningPolicy::CloneIfNecessary) => 1,
                    Some(sch::CloningPolicy::NeverClone) => 2,
                    Some(_) => 9,
                };
                assert!(cl == st.cloning, "the cloning policy that reaches the compiler is not the registered one");
                let exp_lint: Option<(sch::Lint, sch::LintSetting)> = match st.lint {
                    1 => Some((sch::Lint::Unused, sch::LintSetting::Allow)),
                    2 => Some((sch::Lint::Unused, sch::LintSetting::Warn)),
                    3 => Some((sch::Lint::ErrorFallback, sch::LintSetting::Deny)),
                    _ => None,
                };
                match exp_lint {
                    None => assert!(k.lints.is_empty(), "a lint setting appeared from nowhere"),
                    Some((l, s)) => {
                        assert!(k.lints.len() == 1, "lint settings lost or duplicated");
                        assert!(k.lints.get(&l) == Some(&s), "the lint setting that reaches the compiler is not the registered one");
                    }
                }
                check_eh(&k.error_handler, st, i);
            }
            (1, sch::Component::WrappingMiddleware(m)) => {
                assert!(same_coords(&m.coordinates, IDS[i], "wrap") && m.registered_at.line == st.line, "wrapping middleware changed");
                check_eh(&m.error_handler, st, i);
            }
            (2, sch::Component::PreProcessingMiddleware(m)) => {
                assert!(same_coords(&m.coordinates, IDS[i], "pre_process") && m.registered_at.line == st.line, "pre-processing middleware changed");
                check_eh(&m.error_handler, st, i);
            }
            (3, sch::Component::PostProcessingMiddleware(m)) => {
                assert!(same_coords(&m.coordinates, IDS[i], "post_process") && m.registered_at.line == st.line, "post-processing middleware changed");
                check_eh(&m.error_handler, st, i);
            }
            (4, sch::Component::Route(m)) => {
                assert!(same_coords(&m.coordinates, IDS[i], "route") && m.registered_at.line == st.line, "route changed");
                check_eh(&m.error_handler, st, i);
            }
            (5, sch::Component::ErrorObserver(m)) => {
                assert!(same_coords(&m.coordinates, IDS[i], "error_observer") && m.registered_at.line == st.line, "error observer changed");
            }
            _ => panic!("the i-th component in the schema is not of the kind registered by the i-th call"),
        }
    }

    // @tier quick
    // @obligation any sequence of 2 registrations (constructor with any lifecycle / cloning policy / lint setting, wrapping / pre- / post-processing middleware, route, error observer; each optionally followed by .error_handler) yields a schema with exactly those components, in call order, each with the coordinates, settings, error handler and source location of its own call
    // @bounds 2 calls out of 6 kinds; constructor: 4 x 3 x 4 settings; ids and macro names of 2 bytes / fixed
    // @functions Blueprint::new, Blueprint::constructor, Blueprint::wrap, Blueprint::pre_process, Blueprint::post_process, Blueprint::route, Blueprint::error_observer, RegisteredConstructor::*, conversions::*
    // @timeout 1500
    #[kani::proof]
    #[kani::unwind(16)]
    #[kani::stub(std::fmt::format, fmt_stub)]
    #[kani::stub(pavex_bp_schema::Location::caller, loc_stub)]
    fn c19_two_registrations() {
        unsafe { LINE = 0 };
        let mut bp = Blueprint::new();
        let s0 = one_step(&mut bp, 0);
        let s1 = one_step(&mut bp, 1);
        assert!(bp.schema.creation_location.line == 1, "the blueprint's creation location changed");
        assert!(bp.schema.components.len() == 2, "registrations were lost or duplicated");
        check_step(&bp.schema.components[0], &s0, 0);
        check_step(&bp.schema.components[1], &s1, 1);
        kani::cover!(s0.kind == 0 && s0.eh && s1.kind == 4 && s1.eh, "constructor and route, both with error handlers");
        std::mem::forget(bp);
    }

    // @tier debug
    // @timeout 900
    #[kani::proof]
    #[kani::unwind(16)]
    #[kani::stub(std::fmt::format, fmt_stub)]
    #[kani::stub(pavex_bp_schema::Location::caller, loc_stub)]
    fn dbg_one_nonconstructor() {
        unsafe { LINE = 0; KIND_LO = 1; };
        let mut bp = Blueprint::new();
        let s0 = one_step(&mut bp, 0);
        assert!(bp.schema.components.len() == 1);
        check_step(&bp.schema.components[0], &s0, 0);
        std::mem::forget(bp);
    }
    // @tier debug
    // @timeout 900
    #[kani::proof]
    #[kani::unwind(16)]
    #[kani::stub(std::fmt::format, fmt_stub)]
    #[kani::stub(pavex_bp_schema::Location::caller, loc_stub)]
    fn dbg_one_constructor_nolint() {
        unsafe { LINE = 0; KIND_HI = 1; LINTS = false; };
        let mut bp = Blueprint::new();
        let s0 = one_step(&mut bp, 0);
        assert!(bp.schema.components.len() == 1);
        check_step(&bp.schema.components[0], &s0, 0);
        std::mem::forget(bp);
    }
    // @tier debug
    // @timeout 900
    #[kani::proof]
    #[kani::unwind(16)]
    #[kani::stub(std::fmt::format, fmt_stub)]
    #[kani::stub(pavex_bp_schema::Location::caller, loc_stub)]
    fn dbg_one_constructor() {
        unsafe { LINE = 0; KIND_HI = 1; };
        let mut bp = Blueprint::new();
        let s0 = one_step(&mut bp, 0);
        assert!(bp.schema.components.len() == 1);
        check_step(&bp.schema.components[0], &s0, 0);
        std::mem::forget(bp);
    }
}
