"""C19 (what you register is what the compiler sees): real runtime/pavex crate and real pavex_bp_schema,
no shims; the harness module is appended to the scratch copy of blueprint/blueprint.rs."""
from __future__ import annotations

from pathlib import Path

from .. import core
from ..core import CACHE, VERIF, HarnessResult, Scratch, log, parse_harness_specs

PID = "C19"
HARNESS_SRC = VERIF / "harness" / "blueprint" / "c19.rs"
TARGET_REL = "runtime/pavex/src/blueprint/blueprint.rs"


def prepare(sc: Scratch) -> dict:
    target = sc.repo / TARGET_REL
    hsrc = HARNESS_SRC.read_text()
    target.write_text(target.read_text() + "\n" + hsrc)
    specs = parse_harness_specs(hsrc)
    for s in specs:
        s.qual = "blueprint::blueprint::verif_c19::"
    return {
        "pkg_dir": sc.repo / "runtime" / "pavex",
        "target_dir": CACHE / "target-pavex19",
        "specs": specs,
        "jobs": {"quick": 6, "thorough": 6},
        "rewrites": {"appended_harness_module": TARGET_REL, "px_workspace_hack": "hakari section emptied"},
        "assumptions": [],
        "evidence_extra": {"encoded_files": [TARGET_REL]},
    }


def confirm(sc: Scratch, prep: dict, r: HarnessResult, log_dir: Path) -> dict:
    role = f"{r.spec.name}: " + "; ".join(sorted({c["description"] for c in r.failed}))
    return {"reproduced": None, "role": role, "detail": "no native replay yet"}


def replay(path: Path) -> int:
    return 2
