use pavex_session::{IncomingSession, Session, SessionConfig, SessionId, SessionStore};
use pavex_session_memory_store::InMemorySessionStore;
use std::collections::HashMap;

fn parse(cookie: &pavex::cookie::ResponseCookie<'static>) -> (SessionId, HashMap<std::borrow::Cow<'static, str>, serde_json::Value>) {
    let v: serde_json::Value = serde_json::from_str(cookie.value()).unwrap();
    let id: SessionId = serde_json::from_value(v["0"].clone()).unwrap();
    let st = v.get("1").map(|m| serde_json::from_value(m.clone()).unwrap()).unwrap_or_default();
    (id, st)
}

#[tokio::test]
async fn remove_on_loaded_state_is_lost() {
    let store = SessionStore::new(InMemorySessionStore::new());
    let cfg = SessionConfig::new();
    // request 1: create {a: 1}
    let mut s = Session::new(&store, &cfg, None);
    s.insert("a", 1u8).await.unwrap();
    let c = s.finalize().await.unwrap().unwrap();
    let (id, st) = parse(&c);
    // request 2: remove a
    let mut s = Session::new(&store, &cfg, Some(IncomingSession::from_parts(id, st)));
    let old: Option<u8> = s.remove("a").await.unwrap();
    assert_eq!(old, Some(1));
    assert_eq!(s.get::<u8>("a").await.unwrap(), None);
    let c = s.finalize().await.unwrap().unwrap();
    let (id, st) = parse(&c);
    // request 3: a must be gone
    let s = Session::new(&store, &cfg, Some(IncomingSession::from_parts(id, st)));
    assert_eq!(s.get::<u8>("a").await.unwrap(), None, "the removal performed by request 2 was lost");
}

#[tokio::test]
async fn sync_then_finalize_after_cycle_id() {
    let store = SessionStore::new(InMemorySessionStore::new());
    let cfg = SessionConfig::new();
    let mut s = Session::new(&store, &cfg, None);
    s.insert("a", 1u8).await.unwrap();
    let c = s.finalize().await.unwrap().unwrap();
    let (id, st) = parse(&c);
    let mut s = Session::new(&store, &cfg, Some(IncomingSession::from_parts(id, st)));
    s.cycle_id();
    s.sync().await.unwrap();
    let r = s.finalize().await;
    assert!(r.is_ok(), "finalize after an explicit sync failed: {:?}", r.err());
}

#[tokio::test]
async fn sync_then_insert_then_finalize_on_new_session() {
    let store = SessionStore::new(InMemorySessionStore::new());
    let cfg = SessionConfig::new();
    let mut s = Session::new(&store, &cfg, None);
    s.insert("a", 1u8).await.unwrap();
    s.sync().await.unwrap();
    s.insert("b", 2u8).await.unwrap();
    let r = s.finalize().await;
    assert!(r.is_ok(), "finalize after sync+insert on a new session failed: {:?}", r.err());
}

#[tokio::test]
async fn server_insert_on_a_client_only_session_with_allow() {
    use pavex_session::config::{MissingServerState, ServerStateCreation};
    let store = SessionStore::new(InMemorySessionStore::new());
    let mut cfg = SessionConfig::new();
    cfg.state.missing_server_state = MissingServerState::Allow;
    cfg.state.server_state_creation = ServerStateCreation::SkipIfEmpty;
    // request 1: client-side value only
    let mut s = Session::new(&store, &cfg, None);
    s.client_mut().insert("c", 1u8).unwrap();
    let c = s.finalize().await.unwrap().unwrap();
    let (id, st) = parse(&c);
    // request 2: first server-side value
    let mut s = Session::new(&store, &cfg, Some(IncomingSession::from_parts(id, st)));
    s.insert("a", 1u8).await.unwrap();
    let r = s.finalize().await;
    assert!(r.is_ok(), "finalize failed: {:?}", r.err());
    let (id, st) = parse(&r.unwrap().unwrap());
    let s = Session::new(&store, &cfg, Some(IncomingSession::from_parts(id, st)));
    assert_eq!(s.get::<u8>("a").await.unwrap(), Some(1));
}

#[tokio::test]
async fn never_skip_is_honoured_after_cycle_id() {
    // default config: NeverSkip + Reject
    let store = SessionStore::new(InMemorySessionStore::new());
    let cfg = SessionConfig::new();
    let mut s = Session::new(&store, &cfg, None);
    s.client_mut().insert("c", 1u8).unwrap();
    s.insert("a", 1u8).await.unwrap();
    let c = s.finalize().await.unwrap().unwrap();
    let (id, st) = parse(&c);
    // request 2: delete the record, sync, cycle the id
    let mut s = Session::new(&store, &cfg, Some(IncomingSession::from_parts(id, st)));
    s.delete();
    s.sync().await.unwrap();
    s.cycle_id();
    let c = s.finalize().await.unwrap().unwrap();
    let (id, st) = parse(&c);
    // request 3: the client-side value must still be there after touching the server state
    let s = Session::new(&store, &cfg, Some(IncomingSession::from_parts(id, st)));
    assert_eq!(s.get::<u8>("a").await.unwrap(), None);
    assert!(!s.is_invalidated(), "the session was invalidated: no record was created under the new id");
    assert_eq!(s.client().get::<u8>("c").unwrap(), Some(1));
}
