//! Native replayer for C18 counterexamples: the REAL `pavex::config::ConfigLoader` with the real
//! figment, real YAML files in a temporary directory and the real process environment.
//!
//! usage: config_native <script.json>   exit 0 NOT REPRODUCED / 1 REPRODUCED / 2 malformed
//! script: {"values": [[base k0, base k1], [profile k0, k1], [env k0, k1]]  (null = absent),
//!          "explicit_profile": "dev"|"prd"|null, "env_profile": "dev"|"prd"|"zz"|null}
use pavex::config::{ConfigLoader, ConfigProfile};
use serde_json::Value;

// `deny_unknown_fields`: the documented reason why PX_PROFILE must not surface as a key
#[derive(serde::Deserialize, Debug)]
#[serde(deny_unknown_fields)]
struct Cfg {
    k0: u8,
    k1: u8,
}
#[derive(Debug, Clone, Copy, PartialEq, Eq)]
enum Prof {
    Dev,
    Prod,
    Dot,
}
/// as in the harness: the first two profiles get their names from the REAL `#[derive(ConfigProfile)]`
#[derive(ConfigProfile, Debug, Clone, Copy, PartialEq, Eq)]
enum Derived {
    Dev,
    #[px(profile = "prd")]
    Prod,
    /// never selected: it makes the declaration order of the names (dev, prd, ci) differ from their
    /// alphabetical order, and puts an un-annotated variant after the annotated one
    Ci,
}
impl std::str::FromStr for Prof {
    type Err = String;
    fn from_str(s: &str) -> Result<Self, String> {
        if s == "p.q" {
            return Ok(Prof::Dot);
        }
        match s.parse::<Derived>() {
            Ok(Derived::Dev) => Ok(Prof::Dev),
            Ok(Derived::Prod) => Ok(Prof::Prod),
            Ok(Derived::Ci) => Err("a profile nobody asked for".to_string()),
            Err(e) => Err(e.to_string()),
        }
    }
}
impl AsRef<str> for Prof {
    fn as_ref(&self) -> &str {
        match self {
            Prof::Dev => {
                static D: Derived = Derived::Dev;
                D.as_ref()
            }
            Prof::Prod => {
                static D: Derived = Derived::Prod;
                D.as_ref()
            }
            Prof::Dot => "p.q",
        }
    }
}
impl ConfigProfile for Prof {}

// The same two keys under names that merely *start like* the reserved PX_PROFILE variable: the
// documented precedence must hold whatever a key is called ("key_style" in the script).
#[derive(serde::Deserialize, Debug)]
#[serde(deny_unknown_fields)]
struct CfgFlat {
    profiles_dir: u8,
    k1: u8,
}
#[derive(serde::Deserialize, Debug)]
#[serde(deny_unknown_fields)]
struct Label {
    label: u8,
}
#[derive(serde::Deserialize, Debug)]
#[serde(deny_unknown_fields)]
struct CfgNested {
    profiler: Label,
    k1: u8,
}

fn yaml(v: &Value, style: &str) -> String {
    let mut s = String::new();
    for (i, k) in ["k0", "k1"].iter().enumerate() {
        if let Some(n) = v[i].as_u64() {
            match (i, style) {
                (0, "profiles_dir") => s.push_str(&format!("profiles_dir: {n}\n")),
                (0, "profiler_label") => s.push_str(&format!("profiler:\n  label: {n}\n")),
                _ => s.push_str(&format!("{k}: {n}\n")),
            }
        }
    }
    if s.is_empty() { "{}\n".to_string() } else { s }
}

fn main() {
    let path = std::env::args().nth(1).expect("usage: config_native <script.json>");
    let script: Value = match serde_json::from_str(&std::fs::read_to_string(&path).expect("cannot read the script")) {
        Ok(v) => v,
        Err(e) => {
            eprintln!("malformed script: {e}");
            std::process::exit(2);
        }
    };
    let vals = &script["values"];
    let explicit = script["explicit_profile"].as_str().map(|s| s.to_string());
    let envp = script["env_profile"].as_str().map(|s| s.to_string());
    // "dir_mode": "absolute" (default) = an absolute configuration directory; "relative" = the relative
    // directory "cf" under the working directory; "ancestor" = the relative directory "cf" sitting in
    // an ancestor of the working directory (figment searches ancestors for relative paths)
    let mode = script["dir_mode"].as_str().unwrap_or("absolute").to_string();
    let root = std::env::temp_dir().join(format!("verif-c18-{}", std::process::id()));
    let _ = std::fs::remove_dir_all(&root);
    let dir = root.join("cf");
    std::fs::create_dir_all(&dir).unwrap();
    std::fs::create_dir_all(root.join("sub").join("deeper")).unwrap();
    match mode.as_str() {
        "relative" => std::env::set_current_dir(&root).unwrap(),
        "ancestor" => std::env::set_current_dir(root.join("sub").join("deeper")).unwrap(),
        _ => {}
    }
    let style = script["key_style"].as_str().unwrap_or("plain").to_string();
    let selected = explicit.clone().or_else(|| envp.clone().filter(|p| p == "dev" || p == "prd" || p == "p.q"));
    std::fs::write(dir.join("base.yml"), yaml(&vals[0], &style)).unwrap();
    // the profile file of the profile that should be selected holds the values; the other profile's
    // file holds poison values, so that selecting the wrong profile is visible
    // ("p" is what a profile called "p.q" degenerates to when its extension is replaced instead of appended)
    // (and a few names a profile could be mis-spelt as: the un-overridden variant name, another variant, other casings)
    for p in ["dev", "prd", "p.q", "p", "prod", "ci", "Dev", "Prod", "DEV", "PRD"] {
        let content = if Some(p.to_string()) == selected { yaml(&vals[1], &style) } else { yaml(&serde_json::json!([201, 202]), &style) };
        std::fs::write(dir.join(format!("{p}.yml")), content).unwrap();
    }
    // SAFETY: single-threaded
    unsafe {
        for k in ["PX_K0", "PX_K1", "PX_PROFILE", "PX_PROFILES_DIR", "PX_PROFILER__LABEL"] {
            std::env::remove_var(k);
        }
        let k0_var = match style.as_str() {
            "profiles_dir" => "PX_PROFILES_DIR",
            "profiler_label" => "PX_PROFILER__LABEL",
            _ => "PX_K0",
        };
        for (i, k) in [k0_var, "PX_K1"].iter().enumerate() {
            if let Some(n) = vals[2][i].as_u64() {
                std::env::set_var(k, n.to_string());
            }
        }
        if let Some(p) = &envp {
            std::env::set_var("PX_PROFILE", p);
        }
    }
    let mut loader = if mode == "absolute" { ConfigLoader::<Prof>::new().configuration_dir(&dir) } else { ConfigLoader::<Prof>::new().configuration_dir("cf") };
    if let Some(p) = &explicit {
        loader = loader.profile(p.parse().unwrap());
    }
    // (k0, k1) as loaded, whatever the first key is called
    let r: Result<(u8, u8), _> = match style.as_str() {
        "profiles_dir" => loader.load::<CfgFlat>().map(|c| (c.profiles_dir, c.k1)),
        "profiler_label" => loader.load::<CfgNested>().map(|c| (c.profiler.label, c.k1)),
        _ => loader.load::<Cfg>().map(|c| (c.k0, c.k1)),
    };
    let _ = std::env::set_current_dir(std::env::temp_dir());
    let _ = std::fs::remove_dir_all(&root);
    let want = |k: usize| vals[2][k].as_u64().or(vals[1][k].as_u64()).or(vals[0][k].as_u64());
    let fail = |m: String| -> ! {
        println!("REPRODUCED: {m}");
        std::process::exit(1)
    };
    if selected.is_none() {
        if r.is_ok() {
            fail(format!("load succeeded ({:?}) although no valid profile was given (PX_PROFILE = {envp:?})", r.unwrap()));
        }
    } else {
        match (&r, want(0), want(1)) {
            (Ok(c), Some(a), Some(b)) => {
                if c.0 as u64 != a || c.1 as u64 != b {
                    fail(format!("loaded k0={} k1={}, the documented precedence gives k0={a} k1={b} (values {vals}, key style {style})", c.0, c.1));
                }
            }
            (Err(e), Some(_), Some(_)) => fail(format!("a fully defined configuration failed to load: {e:?}")),
            (Ok(c), _, _) => fail(format!("a missing required key was defaulted: {c:?} (values {vals})")),
            (Err(_), _, _) => {}
        }
    }
    println!("NOT REPRODUCED: the loader agrees with the documented precedence");
}
