//! Native replayer for C13 counterexamples against the REAL in-memory store (real clock).
//!
//! usage: memstore_native <script.json>     exit 0 NOT REPRODUCED / 1 REPRODUCED / 2 malformed
//!
//! script: {"records": [{"id": "A", "state": {..}, "live": bool}, ...],
//!          "op": {"name": "load|create|update|update_ttl|delete|change_id|delete_expired", "id": "A", "to": "B",
//!                 "state": {..}, "batch": 0|1|2}}
//! The store is the real crate with one token rewritten: it reads the time from a settable clock
//! (`verif_clock`, see lib/vf/session.py) instead of `Timestamp::now()`, so that a counterexample
//! that needs the clock to stand exactly on a deadline can be replayed: every record is created at
//! instant `deadline - 1` with a ttl of one second, then the clock is set to the script's `now`.
use pavex_session::store::errors::*;
use pavex_session::store::{SessionRecordRef, SessionStorageBackend};
use pavex_session::SessionId;
use pavex_session_memory_store_clocked::{InMemorySessionStore, verif_clock};
use serde_json::{Value, json};
use std::borrow::Cow;
use std::collections::{BTreeMap, HashMap};
use std::time::Duration;

type Map = BTreeMap<String, Value>;
fn to_state(m: &Map) -> HashMap<Cow<'static, str>, Value> {
    m.iter().map(|(k, v)| (Cow::Owned(k.clone()), v.clone())).collect()
}
fn map_of_json(v: &Value) -> Map {
    v.as_object().map(|o| o.iter().map(|(k, v)| (k.clone(), v.clone())).collect()).unwrap_or_default()
}
fn id_of(l: &str) -> SessionId {
    let n: u128 = if l == "A" { 1 } else { 2 };
    serde_json::from_value(json!(uuid::Uuid::from_u128(n))).unwrap()
}
const HOUR: Duration = Duration::from_secs(3600);

struct Fail(String);
macro_rules! check { ($c:expr, $($t:tt)*) => { if !($c) { return Err(Fail(format!($($t)*))); } }; }

async fn view(s: &InMemorySessionStore, l: &str) -> Option<Map> {
    s.load(&id_of(l)).await.unwrap().map(|r| r.state.iter().map(|(k, v)| (k.to_string(), v.clone())).collect())
}

/// reference map: label -> (state, deadline); a record is live while now < deadline
type Model = BTreeMap<String, Option<(Map, i64)>>;
fn live(m: &Model, l: &str, t: i64) -> Option<Map> {
    match &m[l] {
        Some((st, d)) if *d > t => Some(st.clone()),
        _ => None,
    }
}

async fn run(script: &Value) -> Result<(), Fail> {
    let s = InMemorySessionStore::new();
    let mut model: Model = BTreeMap::from([("A".to_string(), None), ("B".to_string(), None)]);
    let now = script["_origin"]["now"].as_i64().unwrap_or(500);
    for r in script["records"].as_array().cloned().unwrap_or_default() {
        let l = r["id"].as_str().unwrap_or("A").to_string();
        let st = map_of_json(&r["state"]);
        let deadline = r["_deadline"].as_i64().unwrap_or(if r["live"].as_bool().unwrap_or(true) { now + 50 } else { now });
        verif_clock::set(deadline - 1);
        s.create(&id_of(&l), SessionRecordRef { state: Cow::Owned(to_state(&st)), ttl: Duration::from_secs(1) })
            .await
            .map_err(|e| Fail(format!("script error: {e:?}")))?;
        model.insert(l, Some((st, deadline)));
    }
    verif_clock::set(now);
    let n_stale = model.values().filter(|r| matches!(r, Some((_, d)) if *d <= now)).count();
    let op = &script["op"];
    let name = op["name"].as_str().unwrap_or("");
    let l = op["id"].as_str().unwrap_or("A").to_string();
    let to = op["to"].as_str().unwrap_or("B").to_string();
    let st = map_of_json(&op["state"]);
    let is_live = live(&model, &l, now).is_some();
    let fresh = now + HOUR.as_secs() as i64;
    match name {
        "load" => {
            let got = s.load(&id_of(&l)).await.unwrap();
            let want = live(&model, &l, now);
            let got_state: Option<Map> = got.as_ref().map(|r| r.state.iter().map(|(k, v)| (k.to_string(), v.clone())).collect());
            check!(got_state == want, "load returned {got_state:?}, the reference map holds {want:?}");
            if let (Some(r), Some((_, d))) = (&got, &model[&l]) {
                check!(r.ttl.as_secs() as i64 == d - now, "load reported a remaining ttl of {:?}, the record's deadline is {} s away", r.ttl, d - now);
            }
        }
        "create" => {
            let r = s.create(&id_of(&l), SessionRecordRef { state: Cow::Owned(to_state(&st)), ttl: HOUR }).await;
            if is_live {
                check!(matches!(r, Err(CreateError::DuplicateId(_))), "create on a live record returned {r:?}");
            } else {
                check!(r.is_ok(), "create failed although no live record holds the id: {r:?}");
                model.insert(l.clone(), Some((st.clone(), fresh)));
            }
        }
        "update" => {
            let r = s.update(&id_of(&l), SessionRecordRef { state: Cow::Owned(to_state(&st)), ttl: HOUR }).await;
            if is_live {
                check!(r.is_ok(), "update failed on a live record: {r:?}");
                model.insert(l.clone(), Some((st.clone(), fresh)));
            } else {
                check!(matches!(r, Err(UpdateError::UnknownIdError(_))), "update on an absent/expired record returned {r:?}");
            }
        }
        "update_ttl" => {
            let r = s.update_ttl(&id_of(&l), HOUR).await;
            if is_live {
                check!(r.is_ok(), "update_ttl failed on a live record: {r:?}");
                let cur = model[&l].clone().unwrap().0;
                model.insert(l.clone(), Some((cur, fresh)));
            } else {
                check!(matches!(r, Err(UpdateTtlError::UnknownId(_))), "update_ttl on an absent/expired record returned {r:?}");
            }
        }
        "delete" => {
            let r = s.delete(&id_of(&l)).await;
            if is_live {
                check!(r.is_ok(), "delete failed on a live record: {r:?}");
                model.insert(l.clone(), None);
            } else {
                check!(matches!(r, Err(DeleteError::UnknownId(_))), "delete on an absent/expired record returned {r:?}");
            }
        }
        "change_id" => {
            let r = s.change_id(&id_of(&l), &id_of(&to)).await;
            let live_to = live(&model, &to, now).is_some();
            if live_to {
                check!(matches!(r, Err(ChangeIdError::DuplicateId(_))), "change_id onto a live record returned {r:?}");
            } else if !is_live {
                check!(matches!(r, Err(ChangeIdError::UnknownId(_))), "change_id of an absent/expired record returned {r:?}");
            } else {
                check!(r.is_ok(), "change_id failed although the source is live and the target free: {r:?}");
                let moved = model[&l].clone();
                model.insert(l.clone(), None);
                model.insert(to.clone(), moved);
            }
        }
        "delete_expired" => {
            let b = op["batch"].as_u64().unwrap_or(0) as usize;
            let r = s.delete_expired(std::num::NonZeroUsize::new(b)).await;
            let want = if b == 0 { n_stale } else { n_stale.min(b) };
            check!(matches!(r, Ok(n) if n == want), "delete_expired returned {r:?}, expected Ok({want}) ({n_stale} expired records, batch {b})");
        }
        other => return Err(Fail(format!("script error: unknown op {other}"))),
    }
    // what an observer sees now, half a fresh ttl later, and two fresh ttls later
    for t in [now, now + 1, now + 1800, now + 7200] {
        verif_clock::set(t);
        for l in ["A", "B"] {
            let got = view(&s, l).await;
            let want = live(&model, l, t);
            check!(got == want, "after {name}, at instant {t} (operation at {now}): record {l} is observed as {got:?}, the reference map holds {want:?}");
        }
    }
    Ok(())
}

fn main() {
    let path = std::env::args().nth(1).expect("usage: memstore_native <script.json>");
    let text = std::fs::read_to_string(&path).expect("cannot read the script");
    let script: Value = match serde_json::from_str(&text) {
        Ok(v) => v,
        Err(e) => {
            eprintln!("malformed script: {e}");
            std::process::exit(2);
        }
    };
    let rt = tokio::runtime::Builder::new_current_thread().enable_time().build().unwrap();
    match rt.block_on(run(&script)) {
        Ok(()) => println!("NOT REPRODUCED: every observation agrees with the reference map"),
        Err(Fail(msg)) if msg.starts_with("script error") => {
            eprintln!("{msg}");
            std::process::exit(2);
        }
        Err(Fail(msg)) => {
            println!("REPRODUCED: {msg}");
            std::process::exit(1);
        }
    }
}
