//! Native replayer for C13 counterexamples against the REAL in-memory store (real clock).
//!
//! usage: memstore_native <script.json>     exit 0 NOT REPRODUCED / 1 REPRODUCED / 2 malformed
//!
//! script: {"records": [{"id": "A", "state": {..}, "live": bool}, ...],
//!          "op": {"name": "load|create|update|update_ttl|delete|change_id|delete_expired", "id": "A", "to": "B",
//!                 "state": {..}, "batch": 0|1|2}}
//! The store is the real crate with one token rewritten: it reads the time from a settable clock
//! (`verif_clock`, see lib/vf/session.py) instead of `Timestamp::now()`, so that a counterexample
//! that needs the clock to stand exactly on a deadline can be replayed: every record is created at
//! instant `deadline - 1 ms` with a ttl of one millisecond, then the clock is set to the script's `now`.
//! All instants in the script are milliseconds (`_deadline_ms`, `_origin.now_ms`, `op.ttl_ms`); scripts
//! written before the clock got sub-second resolution carry seconds (`_deadline`, `_origin.now`).
use pavex_session::store::errors::*;
use pavex_session::store::{SessionRecordRef, SessionStorageBackend};
use pavex_session::SessionId;
use pavex_session_memory_store_clocked::{InMemorySessionStore, verif_clock};
use serde_json::{Value, json};
use std::borrow::Cow;
use std::collections::{BTreeMap, HashMap};
use std::time::Duration;

type Map = BTreeMap<String, Value>;
fn to_state(m: &Map) -> HashMap<Cow<'static, str>, Value> {
    m.iter().map(|(k, v)| (Cow::Owned(k.clone()), v.clone())).collect()
}
fn map_of_json(v: &Value) -> Map {
    v.as_object().map(|o| o.iter().map(|(k, v)| (k.clone(), v.clone())).collect()).unwrap_or_default()
}
fn id_of(l: &str) -> SessionId {
    let n: u128 = if l == "A" { 1 } else { 2 };
    serde_json::from_value(json!(uuid::Uuid::from_u128(n))).unwrap()
}
const HOUR: Duration = Duration::from_secs(3600);

struct Fail(String);
macro_rules! check { ($c:expr, $($t:tt)*) => { if !($c) { return Err(Fail(format!($($t)*))); } }; }

async fn view(s: &InMemorySessionStore, l: &str) -> Option<Map> {
    s.load(&id_of(l)).await.unwrap().map(|r| r.state.iter().map(|(k, v)| (k.to_string(), v.clone())).collect())
}

/// reference map: label -> (state, deadline); a record is live while now < deadline
type Model = BTreeMap<String, Option<(Map, i64)>>;
fn live(m: &Model, l: &str, t: i64) -> Option<Map> {
    match &m[l] {
        Some((st, d)) if *d > t => Some(st.clone()),
        _ => None,
    }
}

async fn run(script: &Value) -> Result<(), Fail> {
    let s = InMemorySessionStore::new();
    let mut model: Model = BTreeMap::from([("A".to_string(), None), ("B".to_string(), None)]);
    let now = script["_origin"]["now_ms"].as_i64().or(script["_origin"]["now"].as_i64().map(|s| s * 1000)).unwrap_or(500_000);
    for r in script["records"].as_array().cloned().unwrap_or_default() {
        let l = r["id"].as_str().unwrap_or("A").to_string();
        let st = map_of_json(&r["state"]);
        let deadline = r["_deadline_ms"].as_i64().or(r["_deadline"].as_i64().map(|s| s * 1000)).unwrap_or(if r["live"].as_bool().unwrap_or(true) { now + 50_000 } else { now });
        verif_clock::set(deadline - 1);
        s.create(&id_of(&l), SessionRecordRef { state: Cow::Owned(to_state(&st)), ttl: Duration::from_millis(1) })
            .await
            .map_err(|e| Fail(format!("script error: {e:?}")))?;
        model.insert(l, Some((st, deadline)));
    }
    verif_clock::set(now);
    let n_stale = model.values().filter(|r| matches!(r, Some((_, d)) if *d <= now)).count();
    let op = &script["op"];
    let name = op["name"].as_str().unwrap_or("");
    let l = op["id"].as_str().unwrap_or("A").to_string();
    let to = op["to"].as_str().unwrap_or("B").to_string();
    let st = map_of_json(&op["state"]);
    let is_live = live(&model, &l, now).is_some();
    // the ttl the operation is given: the script's, else one hour
    let op_ttl = op["ttl_ms"].as_u64().map(Duration::from_millis).unwrap_or(HOUR);
    let fresh = now + op_ttl.as_millis() as i64;
    match name {
        "load" => {
            let got = s.load(&id_of(&l)).await.unwrap();
            let want = live(&model, &l, now);
            let got_state: Option<Map> = got.as_ref().map(|r| r.state.iter().map(|(k, v)| (k.to_string(), v.clone())).collect());
            check!(got_state == want, "load returned {got_state:?}, the reference map holds {want:?}");
            if let (Some(r), Some((_, d))) = (&got, &model[&l]) {
                check!(r.ttl.as_millis() as i64 == d - now, "load reported a remaining ttl of {:?}, the record's deadline is {} ms away", r.ttl, d - now);
            }
        }
        "create" => {
            let r = s.create(&id_of(&l), SessionRecordRef { state: Cow::Owned(to_state(&st)), ttl: op_ttl }).await;
            if is_live {
                check!(matches!(r, Err(CreateError::DuplicateId(_))), "create on a live record returned {r:?}");
            } else {
                check!(r.is_ok(), "create failed although no live record holds the id: {r:?}");
                model.insert(l.clone(), Some((st.clone(), fresh)));
            }
        }
        "update" => {
            let r = s.update(&id_of(&l), SessionRecordRef { state: Cow::Owned(to_state(&st)), ttl: op_ttl }).await;
            if is_live {
                check!(r.is_ok(), "update failed on a live record: {r:?}");
                model.insert(l.clone(), Some((st.clone(), fresh)));
            } else {
                check!(matches!(r, Err(UpdateError::UnknownIdError(_))), "update on an absent/expired record returned {r:?}");
            }
        }
        "update_ttl" => {
            let r = s.update_ttl(&id_of(&l), op_ttl).await;
            if is_live {
                check!(r.is_ok(), "update_ttl failed on a live record: {r:?}");
                let cur = model[&l].clone().unwrap().0;
                model.insert(l.clone(), Some((cur, fresh)));
            } else {
                check!(matches!(r, Err(UpdateTtlError::UnknownId(_))), "update_ttl on an absent/expired record returned {r:?}");
            }
        }
        "delete" => {
            let r = s.delete(&id_of(&l)).await;
            if is_live {
                check!(r.is_ok(), "delete failed on a live record: {r:?}");
                model.insert(l.clone(), None);
            } else {
                check!(matches!(r, Err(DeleteError::UnknownId(_))), "delete on an absent/expired record returned {r:?}");
            }
        }
        "change_id" => {
            let r = s.change_id(&id_of(&l), &id_of(&to)).await;
            let live_to = live(&model, &to, now).is_some();
            if live_to {
                check!(matches!(r, Err(ChangeIdError::DuplicateId(_))), "change_id onto a live record returned {r:?}");
            } else if !is_live {
                check!(matches!(r, Err(ChangeIdError::UnknownId(_))), "change_id of an absent/expired record returned {r:?}");
            } else {
                check!(r.is_ok(), "change_id failed although the source is live and the target free: {r:?}");
                let moved = model[&l].clone();
                model.insert(l.clone(), None);
                model.insert(to.clone(), moved);
            }
        }
        "delete_expired" => {
            let b = op["batch"].as_u64().unwrap_or(0) as usize;
            let r = s.delete_expired(std::num::NonZeroUsize::new(b)).await;
            let want = if b == 0 { n_stale } else { n_stale.min(b) };
            check!(matches!(r, Ok(n) if n == want), "delete_expired returned {r:?}, expected Ok({want}) ({n_stale} expired records, batch {b})");
        }
        other => return Err(Fail(format!("script error: unknown op {other}"))),
    }
    // what an observer sees now, right before and at the new deadline, and much later
    for t in [now, now + 1, fresh - 1, fresh, now + 1_800_000, now + 7_200_000] {
        verif_clock::set(t);
        for l in ["A", "B"] {
            let got = view(&s, l).await;
            let want = live(&model, l, t);
            check!(got == want, "after {name}, at instant {t} (operation at {now}): record {l} is observed as {got:?}, the reference map holds {want:?}");
        }
    }
    Ok(())
}

// ------------------------------------------------------------------------------------------------
// Race mode (script["race"]): the concurrency clause. Two OS threads, each with its own current-thread
// runtime, are released by a barrier and run one operation each on the same real store (real tokio
// Mutex); the outcome - both results and what can be loaded afterwards - must equal the outcome of
// one of the two sequential orders. States are padded with many extra keys so that an operation that
// copies a state outside its critical section has a wide window. A race is probabilistic: a mismatch
// in any round is a genuine violation, no mismatch in all rounds means "not reproduced".
// ------------------------------------------------------------------------------------------------
#[derive(Clone, Debug)]
struct ROp {
    name: String,
    id: String,
    to: String,
    state: Map,
    ttl_ms: i64,
}
fn rop(v: &Value) -> ROp {
    ROp {
        name: v["name"].as_str().unwrap_or("").to_string(),
        id: v["id"].as_str().unwrap_or("A").to_string(),
        to: v["to"].as_str().unwrap_or("B").to_string(),
        state: map_of_json(&v["state"]),
        ttl_ms: v["ttl_ms"].as_i64().unwrap_or(3_600_000),
    }
}
/// code: 0 ok, 1 unknown id, 2 duplicate id, 3 nothing found, 7 anything else; `aux`: the remaining ttl
/// (ms) `load` reported or the count `delete_expired` returned; `state`: what `load` returned
#[derive(Clone, Debug, PartialEq)]
struct Out {
    code: u8,
    aux: i64,
    state: Option<Map>,
}
fn out(code: u8) -> Out {
    Out { code, aux: 0, state: None }
}
fn model_apply(m: &Model, o: &ROp, now: i64) -> (Out, Model) {
    let mut m2 = m.clone();
    let live_i = live(m, &o.id, now).is_some();
    let fresh = Some((o.state.clone(), now + o.ttl_ms));
    match o.name.as_str() {
        "create" => {
            if live_i { (out(2), m2) } else { m2.insert(o.id.clone(), fresh); (out(0), m2) }
        }
        "update" => {
            if live_i { m2.insert(o.id.clone(), fresh); (out(0), m2) } else { (out(1), m2) }
        }
        "update_ttl" => {
            if live_i { let cur = m[&o.id].clone().unwrap().0; m2.insert(o.id.clone(), Some((cur, now + o.ttl_ms))); (out(0), m2) } else { (out(1), m2) }
        }
        "delete" => {
            if live_i { m2.insert(o.id.clone(), None); (out(0), m2) } else { (out(1), m2) }
        }
        "load" => match live(m, &o.id, now) {
            Some(st) => (Out { code: 0, aux: m[&o.id].as_ref().unwrap().1 - now, state: Some(st) }, m2),
            None => (out(3), m2),
        },
        "delete_expired" => {
            let mut n = 0;
            for l in ["A", "B"] {
                if matches!(&m[l], Some((_, d)) if *d <= now) {
                    n += 1;
                    m2.insert(l.to_string(), None);
                }
            }
            (Out { code: 0, aux: n, state: None }, m2)
        }
        _ => {
            if live(m, &o.to, now).is_some() { (out(2), m2) } else if !live_i { (out(1), m2) } else {
                let moved = m[&o.id].clone();
                m2.insert(o.id.clone(), None);
                m2.insert(o.to.clone(), moved);
                (out(0), m2)
            }
        }
    }
}
const PAD: usize = 20_000;
fn padded(m: &Map) -> HashMap<Cow<'static, str>, Value> {
    let mut s = to_state(m);
    for i in 0..PAD {
        s.insert(Cow::Owned(format!("pad{i}")), json!(i));
    }
    s
}
async fn exec_real(s: &InMemorySessionStore, o: &ROp, state: &HashMap<Cow<'static, str>, Value>) -> Out {
    let ttl = Duration::from_millis(o.ttl_ms as u64);
    match o.name.as_str() {
        "create" => match s.create(&id_of(&o.id), SessionRecordRef { state: Cow::Borrowed(state), ttl }).await { Ok(()) => out(0), Err(CreateError::DuplicateId(_)) => out(2), Err(_) => out(7) },
        "update" => match s.update(&id_of(&o.id), SessionRecordRef { state: Cow::Borrowed(state), ttl }).await { Ok(()) => out(0), Err(UpdateError::UnknownIdError(_)) => out(1), Err(_) => out(7) },
        "update_ttl" => match s.update_ttl(&id_of(&o.id), ttl).await { Ok(()) => out(0), Err(UpdateTtlError::UnknownId(_)) => out(1), Err(_) => out(7) },
        "delete" => match s.delete(&id_of(&o.id)).await { Ok(()) => out(0), Err(DeleteError::UnknownId(_)) => out(1), Err(_) => out(7) },
        "load" => match s.load(&id_of(&o.id)).await {
            Ok(Some(r)) => Out { code: 0, aux: r.ttl.as_millis() as i64, state: core_view(Some(r.state.iter().map(|(k, v)| (k.to_string(), v.clone())).collect())) },
            Ok(None) => out(3),
            Err(_) => out(7),
        },
        "delete_expired" => match s.delete_expired(None).await {
            Ok(n) => Out { code: 0, aux: n as i64, state: None },
            Err(_) => out(7),
        },
        _ => match s.change_id(&id_of(&o.id), &id_of(&o.to)).await { Ok(()) => out(0), Err(ChangeIdError::UnknownId(_)) => out(1), Err(ChangeIdError::DuplicateId(_)) => out(2), Err(_) => out(7) },
    }
}
fn core_view(m: Option<Map>) -> Option<Map> {
    m.map(|m| m.into_iter().filter(|(k, _)| !k.starts_with("pad")).collect())
}
fn run_race(script: &Value) -> Result<(), Fail> {
    let now = script["_origin"]["now_ms"].as_i64().unwrap_or(500_000);
    let ours = rop(&script["race"]["ours"]);
    let other = rop(&script["race"]["other"]);
    let rounds: usize = std::env::var("VERIF_RACE_ROUNDS").ok().and_then(|s| s.parse().ok()).unwrap_or(60);
    let (st_ours, st_other) = (std::sync::Arc::new(padded(&ours.state)), std::sync::Arc::new(padded(&other.state)));
    let rt = tokio::runtime::Builder::new_current_thread().enable_time().build().unwrap();
    for round in 0..rounds {
        let s = std::sync::Arc::new(InMemorySessionStore::new());
        let mut model: Model = BTreeMap::from([("A".to_string(), None), ("B".to_string(), None)]);
        for r in script["records"].as_array().cloned().unwrap_or_default() {
            let l = r["id"].as_str().unwrap_or("A").to_string();
            let st = map_of_json(&r["state"]);
            let deadline = r["_deadline_ms"].as_i64().unwrap_or(if r["live"].as_bool().unwrap_or(true) { now + 50_000 } else { now });
            verif_clock::set(deadline - 1);
            rt.block_on(s.create(&id_of(&l), SessionRecordRef { state: Cow::Owned(padded(&st)), ttl: Duration::from_millis(1) }))
                .map_err(|e| Fail(format!("script error: {e:?}")))?;
            model.insert(l, Some((st, deadline)));
        }
        verif_clock::set(now);
        let barrier = std::sync::Arc::new(std::sync::Barrier::new(2));
        let spawn = |o: ROp, st: std::sync::Arc<HashMap<Cow<'static, str>, Value>>| {
            let (s, b) = (s.clone(), barrier.clone());
            std::thread::spawn(move || {
                let rt = tokio::runtime::Builder::new_current_thread().enable_time().build().unwrap();
                b.wait();
                rt.block_on(exec_real(&s, &o, &st))
            })
        };
        let (h1, h2) = (spawn(ours.clone(), st_ours.clone()), spawn(other.clone(), st_other.clone()));
        let (r_ours, r_other) = (h1.join().unwrap(), h2.join().unwrap());
        let (ra1, m1) = model_apply(&model, &other, now);
        let (ro1, m1) = model_apply(&m1, &ours, now);
        let (ro2, m2) = model_apply(&model, &ours, now);
        let (ra2, m2) = model_apply(&m2, &other, now);
        let mut explained = [r_ours == ro1 && r_other == ra1, r_ours == ro2 && r_other == ra2];
        let mut seen = Vec::new();
        for t in [now, now + ours.ttl_ms.min(other.ttl_ms) - 1, now + ours.ttl_ms.max(other.ttl_ms) + 1] {
            verif_clock::set(t);
            for l in ["A", "B"] {
                let got = core_view(rt.block_on(view(&s, l)));
                explained[0] &= got == live(&m1, l, t);
                explained[1] &= got == live(&m2, l, t);
                seen.push((t, l, got));
            }
        }
        check!(
            explained[0] || explained[1],
            "round {round}: `{}` and `{}` issued concurrently returned ({r_ours:?}, {r_other:?}) and left {seen:?}: no sequential order of the two operations explains that (other first: ({ro1:?}, {ra1:?}); ours first: ({ro2:?}, {ra2:?}))",
            ours.name, other.name
        );
    }
    Ok(())
}

fn main() {
    let path = std::env::args().nth(1).expect("usage: memstore_native <script.json>");
    let text = std::fs::read_to_string(&path).expect("cannot read the script");
    let script: Value = match serde_json::from_str(&text) {
        Ok(v) => v,
        Err(e) => {
            eprintln!("malformed script: {e}");
            std::process::exit(2);
        }
    };
    let rt = tokio::runtime::Builder::new_current_thread().enable_time().build().unwrap();
    let outcome = if script["race"].is_object() { run_race(&script) } else { rt.block_on(run(&script)) };
    match outcome {
        Ok(()) => println!("NOT REPRODUCED: every observation agrees with the reference map"),
        Err(Fail(msg)) if msg.starts_with("script error") => {
            eprintln!("{msg}");
            std::process::exit(2);
        }
        Err(Fail(msg)) => {
            println!("REPRODUCED: {msg}");
            std::process::exit(1);
        }
    }
}
