//! Native replayer for C13 counterexamples against the REAL in-memory store (real clock).
//!
//! usage: memstore_native <script.json>     exit 0 NOT REPRODUCED / 1 REPRODUCED / 2 malformed
//!
//! script: {"records": [{"id": "A", "state": {..}, "live": bool}, ...],
//!          "op": {"name": "load|create|update|update_ttl|delete|change_id|delete_expired", "id": "A", "to": "B",
//!                 "state": {..}, "batch": 0|1|2}}
//! A record that the counterexample had as expired is created with a 1 ms ttl and the replayer
//! sleeps 30 ms before the operation; a live one gets an hour. The real clock cannot be stopped at
//! "exactly the deadline": such counterexamples are replayed as "expired" (deadline <= now).
use pavex_session::store::errors::*;
use pavex_session::store::{SessionRecordRef, SessionStorageBackend};
use pavex_session::SessionId;
use pavex_session_memory_store::InMemorySessionStore;
use serde_json::{Value, json};
use std::borrow::Cow;
use std::collections::{BTreeMap, HashMap};
use std::time::Duration;

type Map = BTreeMap<String, Value>;
fn to_state(m: &Map) -> HashMap<Cow<'static, str>, Value> {
    m.iter().map(|(k, v)| (Cow::Owned(k.clone()), v.clone())).collect()
}
fn map_of_json(v: &Value) -> Map {
    v.as_object().map(|o| o.iter().map(|(k, v)| (k.clone(), v.clone())).collect()).unwrap_or_default()
}
fn id_of(l: &str) -> SessionId {
    let n: u128 = if l == "A" { 1 } else { 2 };
    serde_json::from_value(json!(uuid::Uuid::from_u128(n))).unwrap()
}
const HOUR: Duration = Duration::from_secs(3600);

struct Fail(String);
macro_rules! check { ($c:expr, $($t:tt)*) => { if !($c) { return Err(Fail(format!($($t)*))); } }; }

async fn view(s: &InMemorySessionStore, l: &str) -> Option<Map> {
    s.load(&id_of(l)).await.unwrap().map(|r| r.state.iter().map(|(k, v)| (k.to_string(), v.clone())).collect())
}

async fn run(script: &Value) -> Result<(), Fail> {
    let s = InMemorySessionStore::new();
    // model: label -> Some(state) if live
    let mut model: BTreeMap<String, Option<Map>> = BTreeMap::from([("A".to_string(), None), ("B".to_string(), None)]);
    let mut stale: BTreeMap<String, bool> = BTreeMap::new();
    for r in script["records"].as_array().cloned().unwrap_or_default() {
        let l = r["id"].as_str().unwrap_or("A").to_string();
        let st = map_of_json(&r["state"]);
        let live = r["live"].as_bool().unwrap_or(true);
        s.create(&id_of(&l), SessionRecordRef { state: Cow::Owned(to_state(&st)), ttl: if live { HOUR } else { Duration::from_millis(1) } })
            .await
            .map_err(|e| Fail(format!("script error: {e:?}")))?;
        if live {
            model.insert(l.clone(), Some(st));
        }
        stale.insert(l, !live);
    }
    tokio::time::sleep(Duration::from_millis(30)).await;
    let op = &script["op"];
    let name = op["name"].as_str().unwrap_or("");
    let l = op["id"].as_str().unwrap_or("A").to_string();
    let to = op["to"].as_str().unwrap_or("B").to_string();
    let st = map_of_json(&op["state"]);
    let live = model[&l].is_some();
    match name {
        "load" => {
            let got = view(&s, &l).await;
            check!(got == model[&l], "load returned {got:?}, the reference map holds {:?}", model[&l]);
        }
        "create" => {
            let r = s.create(&id_of(&l), SessionRecordRef { state: Cow::Owned(to_state(&st)), ttl: HOUR }).await;
            if live {
                check!(matches!(r, Err(CreateError::DuplicateId(_))), "create on a live record returned {r:?}");
            } else {
                check!(r.is_ok(), "create failed although no live record holds the id: {r:?}");
                model.insert(l.clone(), Some(st.clone()));
            }
        }
        "update" => {
            let r = s.update(&id_of(&l), SessionRecordRef { state: Cow::Owned(to_state(&st)), ttl: HOUR }).await;
            if live {
                check!(r.is_ok(), "update failed on a live record: {r:?}");
                model.insert(l.clone(), Some(st.clone()));
            } else {
                check!(matches!(r, Err(UpdateError::UnknownIdError(_))), "update on an absent/expired record returned {r:?}");
            }
        }
        "update_ttl" => {
            let r = s.update_ttl(&id_of(&l), HOUR).await;
            if live {
                check!(r.is_ok(), "update_ttl failed on a live record: {r:?}");
            } else {
                check!(matches!(r, Err(UpdateTtlError::UnknownId(_))), "update_ttl on an absent/expired record returned {r:?}");
            }
        }
        "delete" => {
            let r = s.delete(&id_of(&l)).await;
            if live {
                check!(r.is_ok(), "delete failed on a live record: {r:?}");
                model.insert(l.clone(), None);
            } else {
                check!(matches!(r, Err(DeleteError::UnknownId(_))), "delete on an absent/expired record returned {r:?}");
            }
        }
        "change_id" => {
            let r = s.change_id(&id_of(&l), &id_of(&to)).await;
            let live_to = model[&to].is_some();
            if live_to {
                check!(matches!(r, Err(ChangeIdError::DuplicateId(_))), "change_id onto a live record returned {r:?}");
            } else if !live {
                check!(matches!(r, Err(ChangeIdError::UnknownId(_))), "change_id of an absent/expired record returned {r:?}");
            } else {
                check!(r.is_ok(), "change_id failed although the source is live and the target free: {r:?}");
                let moved = model[&l].clone();
                model.insert(l.clone(), None);
                model.insert(to.clone(), moved);
            }
        }
        "delete_expired" => {
            let b = op["batch"].as_u64().unwrap_or(0) as usize;
            let n_stale = stale.values().filter(|x| **x).count();
            let r = s.delete_expired(std::num::NonZeroUsize::new(b)).await;
            let want = if b == 0 { n_stale } else { n_stale.min(b) };
            check!(matches!(r, Ok(n) if n == want), "delete_expired returned {r:?}, expected Ok({want})");
        }
        other => return Err(Fail(format!("script error: unknown op {other}"))),
    }
    for l in ["A", "B"] {
        let got = view(&s, l).await;
        check!(got == model[l], "after {name}: record {l} is observed as {got:?}, the reference map holds {:?}", model[l]);
    }
    // a stale record must never come back: look again a little later
    tokio::time::sleep(Duration::from_millis(5)).await;
    for l in ["A", "B"] {
        let got = view(&s, l).await;
        check!(got == model[l], "a little later: record {l} is observed as {got:?}, the reference map holds {:?}", model[l]);
    }
    Ok(())
}

fn main() {
    let path = std::env::args().nth(1).expect("usage: memstore_native <script.json>");
    let text = std::fs::read_to_string(&path).expect("cannot read the script");
    let script: Value = match serde_json::from_str(&text) {
        Ok(v) => v,
        Err(e) => {
            eprintln!("malformed script: {e}");
            std::process::exit(2);
        }
    };
    let rt = tokio::runtime::Builder::new_current_thread().enable_time().build().unwrap();
    match rt.block_on(run(&script)) {
        Ok(()) => println!("NOT REPRODUCED: every observation agrees with the reference map"),
        Err(Fail(msg)) if msg.starts_with("script error") => {
            eprintln!("{msg}");
            std::process::exit(2);
        }
        Err(Fail(msg)) => {
            println!("REPRODUCED: {msg}");
            std::process::exit(1);
        }
    }
}
