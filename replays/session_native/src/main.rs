//! Native replayer for session scripts against the REAL crates.
//!
//! usage: session_native <script.json>
//! exit 0 = every observation agreed with the reference model ("NOT REPRODUCED")
//! exit 1 = a disagreement ("REPRODUCED: <what>")  exit 2 = malformed script
//!
//! The reference model below is the same documentation-level model the Kani harnesses use
//! (lazy loading, MissingServerState, ServerStateCreation), re-stated over real JSON values and
//! whole request sequences: every request ends with `finalize`, the next one presents the cookie
//! the previous one produced.
use pavex::cookie::config::{CryptoAlgorithm, CryptoRule};
use pavex::cookie::{Key, Processor, ProcessorConfig, ResponseCookies, SameSite};
use pavex_session::config::{MissingServerState, ServerStateCreation, SessionCookieKind, TtlExtensionThreshold, TtlExtensionTrigger};
use pavex_session::store::errors::*;
use pavex_session::store::{SessionRecord, SessionRecordRef, SessionStorageBackend};
use pavex_session::{IncomingSession, Session, SessionConfig, SessionId, SessionStore};
use pavex_session_memory_store::InMemorySessionStore;
use serde_json::{Value, json};
use std::borrow::Cow;
use std::collections::{BTreeMap, HashMap};

/// The real in-memory store behind a fault injector for the one documented store race: "the old
/// state is no longer in the store - e.g. it may have expired while we were processing". When
/// armed with an id, the record filed under it is dropped right before the next store call.
#[derive(Clone)]
struct Racy {
    inner: InMemorySessionStore,
    armed: std::sync::Arc<std::sync::Mutex<Option<SessionId>>>,
    fired: std::sync::Arc<std::sync::atomic::AtomicBool>,
}
impl std::fmt::Debug for Racy {
    fn fmt(&self, f: &mut std::fmt::Formatter<'_>) -> std::fmt::Result {
        f.write_str("Racy")
    }
}
impl Racy {
    async fn tick(&self) {
        let id = self.armed.lock().unwrap().take();
        if let Some(id) = id {
            let _ = self.inner.delete(&id).await;
            self.fired.store(true, std::sync::atomic::Ordering::SeqCst);
        }
    }
}
#[async_trait::async_trait]
impl SessionStorageBackend for Racy {
    async fn create(&self, id: &SessionId, record: SessionRecordRef<'_>) -> Result<(), CreateError> {
        self.tick().await;
        self.inner.create(id, record).await
    }
    async fn update(&self, id: &SessionId, record: SessionRecordRef<'_>) -> Result<(), UpdateError> {
        self.tick().await;
        self.inner.update(id, record).await
    }
    async fn update_ttl(&self, id: &SessionId, ttl: std::time::Duration) -> Result<(), UpdateTtlError> {
        self.tick().await;
        self.inner.update_ttl(id, ttl).await
    }
    async fn load(&self, id: &SessionId) -> Result<Option<SessionRecord>, LoadError> {
        self.tick().await;
        self.inner.load(id).await
    }
    async fn delete(&self, id: &SessionId) -> Result<(), DeleteError> {
        self.tick().await;
        self.inner.delete(id).await
    }
    async fn change_id(&self, old: &SessionId, new: &SessionId) -> Result<(), ChangeIdError> {
        self.tick().await;
        self.inner.change_id(old, new).await
    }
    async fn delete_expired(&self, b: Option<std::num::NonZeroUsize>) -> Result<usize, DeleteExpiredError> {
        self.inner.delete_expired(b).await
    }
}

type Map = BTreeMap<String, Value>;
type State = HashMap<Cow<'static, str>, Value>;

fn to_state(m: &Map) -> State {
    m.iter().map(|(k, v)| (Cow::Owned(k.clone()), v.clone())).collect()
}
fn of_state(s: &State) -> Map {
    s.iter().map(|(k, v)| (k.to_string(), v.clone())).collect()
}
fn map_of_json(v: &Value) -> Map {
    v.as_object().map(|o| o.iter().map(|(k, v)| (k.clone(), v.clone())).collect()).unwrap_or_default()
}
fn label_id(l: &str) -> SessionId {
    let n: u128 = match l {
        "O" => 1,
        "N" => 2,
        "X" => 3,
        _ => 9,
    };
    serde_json::from_value(json!(uuid::Uuid::from_u128(n))).unwrap()
}

#[derive(Clone, PartialEq, Debug)]
enum View {
    NotLooked,
    Absent,
    Present(Map),
    Deleted,
}
#[derive(Clone, Debug)]
struct Model {
    /// the server-side values were modified in this request
    dirty: bool,
    /// the client-side values were modified in this request
    client_touched: bool,
    known: bool,
    cycled: bool,
    client: Map,
    view: View,
    invalidated: bool,
}
impl Model {
    fn look(&mut self, rec: Option<&Map>, allow: bool) {
        if self.view == View::NotLooked {
            match rec {
                Some(m) => self.view = View::Present(m.clone()),
                None if allow => self.view = View::Absent,
                None => {
                    self.invalidated = true;
                    self.view = View::Deleted;
                }
            }
        }
    }
}

struct Fail(String);
macro_rules! check {
    ($c:expr, $($t:tt)*) => { if !($c) { return Err(Fail(format!($($t)*))); } };
}

async fn load(store: &InMemorySessionStore, id: &SessionId) -> Option<Map> {
    store.load(id).await.unwrap().map(|r| of_state(&r.state))
}

fn parse_cookie(c: &pavex::cookie::ResponseCookie<'static>) -> Option<(SessionId, Map)> {
    let v: Value = serde_json::from_str(c.value()).ok()?;
    let id: SessionId = serde_json::from_value(v.get("0")?.clone()).ok()?;
    let st = v.get("1").map(map_of_json).unwrap_or_default();
    Some((id, st))
}

async fn run(script: &Value) -> Result<(), Fail> {
    let cfgj = &script["config"];
    let mut cfg = SessionConfig::new();
    if cfgj["extend_ttl"] == "on_state_changes" {
        cfg.state.extend_ttl = TtlExtensionTrigger::OnStateChanges;
    }
    if cfgj.get("threshold").is_some() {
        cfg.state.ttl_extension_threshold = cfgj["threshold"].as_f64().map(|f| TtlExtensionThreshold::new(f as f32).unwrap());
    }
    if cfgj["creation"] == "skip_if_empty" {
        cfg.state.server_state_creation = ServerStateCreation::SkipIfEmpty;
    }
    if cfgj["missing"] == "allow" {
        cfg.state.missing_server_state = MissingServerState::Allow;
    }
    if cfgj["cookie_kind"] == "session" {
        cfg.cookie.kind = pavex_session::config::SessionCookieKind::Session;
    }
    let allow = cfg.state.missing_server_state == MissingServerState::Allow;
    let never_skip = cfg.state.server_state_creation == ServerStateCreation::NeverSkip;
    // optional: session cookie configuration and the middleware path (C12)
    if let Some(c) = script.get("cookie").filter(|c| c.is_object()) {
        if let Some(n) = c["name"].as_str() { cfg.cookie.name = n.to_string(); }
        cfg.cookie.domain = c["domain"].as_str().map(|s| s.to_string());
        cfg.cookie.path = c["path"].as_str().map(|s| s.to_string());
        cfg.cookie.secure = c["secure"].as_bool().unwrap_or(true);
        cfg.cookie.http_only = c["http_only"].as_bool().unwrap_or(true);
        cfg.cookie.same_site = match c["same_site"].as_str() { Some("strict") => Some(SameSite::Strict), Some("lax") => Some(SameSite::Lax), Some("none") => Some(SameSite::None), _ => None };
        cfg.cookie.kind = if c["kind"] == "session" { SessionCookieKind::Session } else { SessionCookieKind::Persistent };
    }
    let middleware: Option<(bool, bool)> = script.get("middleware").filter(|m| m.is_object()).map(|m| (m["encrypts"].as_bool().unwrap_or(false), m["signs"].as_bool().unwrap_or(false)));
    let processor: Option<Processor> = middleware.map(|(enc, sign)| {
        let mut pc = ProcessorConfig::default();
        if enc || sign {
            pc.crypto_rules.push(CryptoRule {
                cookie_names: vec![cfg.cookie.name.clone()],
                algorithm: if enc { CryptoAlgorithm::Encryption } else { CryptoAlgorithm::Signing },
                key: Key::generate(),
                fallbacks: vec![],
            });
        }
        pc.into()
    });

    let backend = InMemorySessionStore::new();
    let racy = Racy { inner: backend.clone(), armed: Default::default(), fired: Default::default() };
    let store = SessionStore::new(racy.clone());
    // model of the store: id -> values
    let mut mstore: HashMap<SessionId, Map> = HashMap::new();
    let mut seeded_ttl: HashMap<SessionId, std::time::Duration> = HashMap::new();
    if let Some(recs) = script["store"].as_array() {
        for r in recs {
            let id = label_id(r["label"].as_str().unwrap_or("X"));
            let m = map_of_json(&r["state"]);
            // "ttl_pct": remaining ttl of the record as a percentage of a fresh one
            let pct = r["ttl_pct"].as_u64().unwrap_or(100).clamp(1, 100);
            let ttl = cfg.state.ttl.mul_f64(pct as f64 / 100.0);
            seeded_ttl.insert(id, ttl);
            backend
                .create(&id, SessionRecordRef { state: Cow::Owned(to_state(&m)), ttl })
                .await
                .map_err(|e| Fail(format!("script error: cannot seed the store: {e:?}")))?;
            mstore.insert(id, m);
        }
    }
    let unrelated = label_id("X");
    let unrelated_before = mstore.get(&unrelated).cloned();

    let mut previous: Option<(SessionId, Map)> = None;
    let reqs = script["requests"].as_array().ok_or_else(|| Fail("script error: no requests".into()))?;
    for (ri, req) in reqs.iter().enumerate() {
        let incoming: Option<(SessionId, Map)> = match &req["cookie"] {
            Value::Null => None,
            Value::String(s) if s == "previous" => previous.clone(),
            c => Some((label_id(c["label"].as_str().unwrap_or("O")), map_of_json(&c["client"]))),
        };
        let old_id = incoming.as_ref().map(|(id, _)| *id);
        let mut m = Model {
            dirty: false,
            client_touched: false,
            known: incoming.is_some(),
            cycled: false,
            client: incoming.as_ref().map(|(_, c)| c.clone()).unwrap_or_default(),
            view: if incoming.is_some() { View::NotLooked } else { View::Absent },
            invalidated: false,
        };
        let mut s = Session::new(&store, &cfg, incoming.as_ref().map(|(id, c)| IncomingSession::from_parts(*id, to_state(c))));
        // the id under which the record lives right now, when the client can know it
        let mut rec_id: Option<SessionId> = old_id;
        // the model's expectation of the record's content, whatever id it is filed under
        let mut cur_rec: Option<Map> = old_id.and_then(|id| mstore.get(&id)).cloned();
        // a sync persisted the session under an id no cookie has revealed yet
        let mut id_floating = false;
        let mut was_ambiguous = false;
        let ops = req["ops"].as_array().cloned().unwrap_or_default();
        let mut ended = false;
        for (oi, op) in ops.iter().chain(std::iter::once(&json!(["finalize"]))).enumerate() {
            if ended {
                break;
            }
            let name = op[0].as_str().unwrap_or("");
            let key = op[1].as_str().unwrap_or("a").to_string();
            let val = op.get(2).cloned().unwrap_or(Value::Null);
            let at = format!("request {ri} op {oi} {op}");
            let rec_now = cur_rec.clone();
            match name {
                "server_get" => {
                    let got = s.get_raw(&key).await.map_err(|e| Fail(format!("{at}: error {e:?}")))?.cloned();
                    m.look(rec_now.as_ref(), allow);
                    let want = match &m.view { View::Present(mm) => mm.get(&key).cloned(), _ => None };
                    check!(got == want, "{at}: server get returned {got:?}, the session holds {want:?}");
                }
                "server_is_empty" => {
                    let got = s.is_empty().await.map_err(|e| Fail(format!("{at}: error {e:?}")))?;
                    m.look(rec_now.as_ref(), allow);
                    let want = match &m.view { View::Present(mm) => mm.is_empty(), _ => true };
                    check!(got == want, "{at}: server is_empty returned {got}, expected {want}");
                }
                "server_insert" => {
                    let got = s.insert_raw(key.clone(), val.clone()).await.map_err(|e| Fail(format!("{at}: error {e:?}")))?;
                    m.look(rec_now.as_ref(), allow);
                    let want = match &mut m.view {
                        View::Deleted => None,
                        View::Present(mm) => { m.dirty = true; mm.insert(key.clone(), val.clone()) }
                        _ => {
                            m.dirty = true;
                            m.view = View::Present(Map::from([(key.clone(), val.clone())]));
                            None
                        }
                    };
                    check!(got == want, "{at}: server insert returned {got:?}, expected {want:?}");
                }
                "server_remove" => {
                    let got = s.remove_raw(&key).await.map_err(|e| Fail(format!("{at}: error {e:?}")))?;
                    m.look(rec_now.as_ref(), allow);
                    let want = match &mut m.view { View::Present(mm) => mm.remove(&key), _ => None };
                    if want.is_some() {
                        m.dirty = true;
                    }
                    check!(got == want, "{at}: server remove returned {got:?}, expected {want:?}");
                }
                "server_clear" => {
                    s.clear().await.map_err(|e| Fail(format!("{at}: error {e:?}")))?;
                    m.look(rec_now.as_ref(), allow);
                    if let View::Present(mm) = &mut m.view {
                        if !mm.is_empty() {
                            m.dirty = true;
                        }
                        mm.clear();
                    }
                }
                "debug" => {
                    // C12: "the session id never appears in the Debug output of the session"
                    let text = format!("{:?}\n{:#?}", s, s);
                    if let Some(found) = looks_like_uuid(&text) {
                        check!(false, "{at}: the Debug output of the session contains what looks like a session id ({found}): {text}");
                    }
                    for id in mstore.keys().copied().chain(old_id) {
                        let u = id.inner();
                        for spelt in [u.hyphenated().to_string(), u.simple().to_string(), u.as_u128().to_string()] {
                            check!(!text.to_lowercase().contains(&spelt.to_lowercase()), "{at}: the Debug output of the session contains the session id {spelt}");
                        }
                    }
                }
                "force_load" => {
                    s.force_load().await.map_err(|e| Fail(format!("{at}: error {e:?}")))?;
                    m.look(rec_now.as_ref(), allow);
                }
                "delete" => {
                    s.delete();
                    m.view = View::Deleted;
                }
                "cycle_id" => {
                    s.cycle_id();
                    if m.known {
                        m.cycled = true;
                    }
                }
                "invalidate" => {
                    s.invalidate();
                    m.invalidated = true;
                    m.view = View::Deleted;
                }
                "client_get" => {
                    let got = s.client().get_raw(&key).cloned();
                    let want = if m.invalidated { None } else { m.client.get(&key).cloned() };
                    check!(got == want, "{at}: client get returned {got:?}, expected {want:?}");
                }
                "client_insert" => {
                    let got = s.client_mut().insert_raw(key.clone(), val.clone());
                    let want = if m.invalidated { None } else { m.client_touched = true; m.client.insert(key.clone(), val.clone()) };
                    check!(got == want, "{at}: client insert returned {got:?}, expected {want:?}");
                }
                "client_remove" => {
                    let got = s.client_mut().remove_raw(&key);
                    let want = if m.invalidated { None } else { m.client_touched = true; m.client.remove(&key) };
                    check!(got == want, "{at}: client remove returned {got:?}, expected {want:?}");
                }
                "client_clear" => {
                    s.client_mut().clear();
                    if !m.invalidated {
                        m.client_touched = true;
                        m.client.clear();
                    }
                }
                "sync" | "finalize" | "sync_with_expiry_race" => {
                    let is_final = name == "finalize";
                    let race = name == "sync_with_expiry_race";
                    if race {
                        // the record vanishes at the first store call this sync makes
                        *racy.armed.lock().unwrap() = rec_id;
                        racy.fired.store(false, std::sync::atomic::Ordering::SeqCst);
                    }
                    let client_non_empty = !m.invalidated && !m.client.is_empty();
                    let outcome = if is_final && processor.is_some() && ri == 0 {
                        // C12: the real middleware, a real Processor with the requested crypto rule
                        let (enc, sign) = middleware.unwrap();
                        let will_sign = sign && !enc;
                        let session = std::mem::replace(&mut s, Session::new(&store, &cfg, None));
                        let mut jar = ResponseCookies::new();
                        let r = pavex_session::finalize_session(pavex::Response::ok(), &mut jar, processor.as_ref().unwrap(), session).await;
                        let attached: Vec<_> = jar.iter().cloned().collect();
                        match r {
                            Ok(_) => {
                                check!(attached.len() <= 1, "{at}: more than one cookie attached");
                                if let Some(c) = attached.first() {
                                    check!(enc || will_sign, "{at}: a session cookie was attached although the processor neither signs nor encrypts it");
                                    check!(!client_non_empty || enc, "{at}: client-side state travels in a cookie that is not encrypted");
                                    check!(c.name() == cfg.cookie.name, "{at}: cookie name {:?} differs from the configured one", c.name());
                                    check!(c.domain() == cfg.cookie.domain.as_deref(), "{at}: cookie domain {:?} differs from the configured {:?}", c.domain(), cfg.cookie.domain);
                                    check!(c.path() == cfg.cookie.path.as_deref(), "{at}: cookie path {:?} differs from the configured {:?}", c.path(), cfg.cookie.path);
                                    if !c.value().is_empty() {
                                        check!(c.same_site() == cfg.cookie.same_site, "{at}: SameSite differs from the configured one");
                                        check!(c.secure() == if cfg.cookie.secure { Some(true) } else { None }, "{at}: Secure differs from the configured one");
                                        check!(c.http_only() == if cfg.cookie.http_only { Some(true) } else { None }, "{at}: HttpOnly differs from the configured one");
                                        let persistent = cfg.cookie.kind == SessionCookieKind::Persistent;
                                        check!(c.max_age().is_some() == persistent, "{at}: max-age present = {}, cookie kind persistent = {persistent}", c.max_age().is_some());
                                    }
                                }
                                Ok(attached.first().cloned())
                            }
                            Err(e) => {
                                check!(attached.is_empty(), "{at}: the request failed ({e:?}) but a session cookie was attached anyway");
                                let es = format!("{e:?}");
                                if es.starts_with("CryptoRequired") {
                                    check!(!enc && !will_sign, "{at}: CryptoRequired although the cookie would have been protected");
                                    return Ok(());
                                } else if es.starts_with("EncryptionRequired") {
                                    check!(client_non_empty && !enc, "{at}: EncryptionRequired although the cookie would be encrypted or carries no client state");
                                    return Ok(());
                                }
                                Err(es)
                            }
                        }
                    } else if is_final {
                        s.finalize().await.map_err(|e| format!("{e:?}"))
                    } else {
                        s.sync().await.map(|_| None).map_err(|e| format!("{e:?}"))
                    };
                    let fired = race && racy.fired.load(std::sync::atomic::Ordering::SeqCst);
                    *racy.armed.lock().unwrap() = None;
                    if fired {
                        cur_rec = None;
                        if let Some(old) = rec_id {
                            mstore.remove(&old);
                        }
                    }
                    let rec_before = cur_rec.clone();
                    let cookie = match outcome {
                        Err(_) if fired => {
                            // with the race, failing is acceptable (the ttl refresh of a vanished record has
                            // nothing to fall back to); what is not acceptable is succeeding wrongly
                            ended = true;
                            previous = incoming.clone();
                            continue;
                        }
                        Err(e) => {
                            // the one documented failure
                            check!(m.view == View::NotLooked && m.cycled && rec_before.is_none(),
                                "{at}: failed with {e} although the store answered every call as a plain map");
                            ended = true;
                            previous = incoming.clone();
                            continue;
                        }
                        Ok(c) => c,
                    };
                    let parsed = cookie.as_ref().and_then(|c| if c.value().is_empty() { None } else { parse_cookie(c) });
                    // Under which id does the session live now? The cookie says; without a cookie it
                    // is only known if it was known before and the id was not cycled since.
                    let cur_id: Option<SessionId> = match &parsed {
                        Some((id, _)) => Some(*id),
                        None => if m.cycled || id_floating { None } else { rec_id },
                    };
                    if m.cycled {
                        if let (Some(old), Some(cur)) = (rec_id, cur_id) {
                            check!(old != cur, "{at}: cycle_id kept the old id");
                        }
                    }
                    if let Some(old) = rec_id {
                        if m.cycled || m.view == View::Deleted {
                            let left = load(&backend, &old).await;
                            check!(left.is_none(), "{at}: the record is still reachable under the old id after cycle_id / delete / invalidate: {left:?}");
                            mstore.remove(&old);
                        }
                    }
                    // what the record must be now
                    let policy_wants_record = never_skip && !m.invalidated && (m.known || !m.client.is_empty());
                    let (want, either_empty_or_absent): (Option<Map>, bool) = match &m.view {
                        View::NotLooked => {
                            check!(!m.cycled || rec_before.is_some(), "{at}: renaming a missing record succeeded");
                            (rec_before.clone(), false)
                        }
                        View::Present(mm) => (Some(mm.clone()), false),
                        View::Absent => if policy_wants_record { (Some(Map::new()), false) } else { (None, true) },
                        View::Deleted => (None, false),
                    };
                    let ambiguous = either_empty_or_absent || was_ambiguous && m.view == View::NotLooked;
                    match cur_id {
                        Some(id) => {
                            let actual = load(&backend, &id).await;
                            let ok = actual == want || (ambiguous && actual.as_ref().map(|a| a.is_empty()).unwrap_or(true));
                            check!(ok, "{at}: the store holds {actual:?} under the session's id; the request ended with server-side state {want:?} (view {:?})", m.view);
                            match &actual {
                                Some(a) => { mstore.insert(id, a.clone()); }
                                None => { mstore.remove(&id); }
                            }
                            // TTL policy, where the documentation is unambiguous: same id as the request came in with,
                            // no race, a record seeded by the script (so its remaining ttl is known)
                            if !race && !m.cycled && Some(id) == old_id && actual.is_some() {
                                if let (Some(seed), Some(rec)) = (seeded_ttl.get(&id), backend.load(&id).await.unwrap()) {
                                    let fresh = cfg.state.ttl;
                                    let refreshed = rec.ttl > fresh.mul_f64(0.995);
                                    let on_loads = cfg.state.extend_ttl == TtlExtensionTrigger::OnStateLoadsAndChanges;
                                    let thr = cfg.state.ttl_extension_threshold.is_some();
                                    let pct = seed.as_secs_f64() / fresh.as_secs_f64();
                                    if *seed < fresh.mul_f64(0.99) {
                                        if m.dirty {
                                            check!(refreshed, "{at}: modified server-side state was persisted without a fresh ttl (remaining {:?})", rec.ttl);
                                        } else if matches!(m.view, View::Present(_)) && rec_before.is_some() {
                                            if on_loads && (!thr || pct < 0.79) {
                                                check!(refreshed, "{at}: OnStateLoadsAndChanges: the state was loaded (remaining {:.0}% of the ttl) but its ttl was not refreshed", pct * 100.0);
                                            }
                                            if (on_loads && thr && pct > 0.81) || (!on_loads && !m.client_touched) {
                                                check!(!refreshed, "{at}: the ttl was refreshed although the trigger / threshold says it must not be (remaining {:.0}%)", pct * 100.0);
                                            }
                                        }
                                    }
                                    // from now on the remaining ttl is whatever the store says
                                    seeded_ttl.insert(id, rec.ttl);
                                }
                            }
                            cur_rec = actual;
                            rec_id = Some(id);
                            id_floating = false;
                            was_ambiguous = false;
                        }
                        None => {
                            // cannot be observed yet (no cookie, id not known): carry the expectation over
                            cur_rec = want;
                            was_ambiguous = ambiguous;
                            if m.cycled || !m.known {
                                id_floating = true;
                                rec_id = None;
                            }
                        }
                    }
                    let now_unrelated = load(&backend, &unrelated).await;
                    check!(now_unrelated == unrelated_before, "{at}: the record of an unrelated session changed");
                    // synchronised model
                    let record_exists = cur_rec.is_some();
                    m.view = match &m.view {
                        View::NotLooked => View::NotLooked,
                        View::Present(mm) => View::Present(mm.clone()),
                        View::Absent => if record_exists { View::Present(Map::new()) } else { View::Absent },
                        View::Deleted => if m.invalidated { View::Deleted } else { View::Absent },
                    };
                    let was_known = m.known;
                    m.known = m.known || record_exists;
                    m.cycled = false;
                    if is_final {
                        ended = true;
                        if m.invalidated {
                            match &cookie {
                                Some(c) => check!(was_known && c.value().is_empty() && c.expires().is_some(), "{at}: an invalidated session must get a removal cookie (and only if the client had a session)"),
                                None => check!(!was_known, "{at}: no removal cookie for an invalidated session the client knows about"),
                            }
                            previous = None;
                        } else {
                            let nothing = m.client.is_empty() && !was_known && !record_exists;
                            match &cookie {
                                None => {
                                    check!(nothing, "{at}: no session cookie although there is state to carry over");
                                    previous = None;
                                }
                                Some(c) => {
                                    check!(!nothing, "{at}: a session cookie for a brand-new empty session");
                                    check!(!(c.value().is_empty()), "{at}: a live session got a removal cookie");
                                    let (id, cm) = parsed.clone().ok_or_else(|| Fail(format!("{at}: the cookie value is not a well-formed wire state: {}", c.value())))?;
                                    check!(cm == m.client, "{at}: the cookie carries client-side values {cm:?}, the request ended with {:?}", m.client);
                                    previous = Some((id, cm));
                                }
                            }
                        }
                    }
                }
                other => return Err(Fail(format!("script error: unknown op {other}"))),
            }
            check!(s.is_invalidated() == m.invalidated || name == "finalize", "{at}: is_invalidated() = {}, expected {}", s.is_invalidated(), m.invalidated);
        }
    }
    Ok(())
}

/// 8-4-4-4-12 hexadecimal digits, or 32 hexadecimal digits in a row
fn looks_like_uuid(text: &str) -> Option<String> {
    let b = text.as_bytes();
    let hex = |c: u8| c.is_ascii_hexdigit();
    let mut i = 0;
    while i < b.len() {
        if i + 36 <= b.len() {
            let w = &b[i..i + 36];
            if w.iter().enumerate().all(|(k, c)| if matches!(k, 8 | 13 | 18 | 23) { *c == b'-' } else { hex(*c) }) {
                return Some(String::from_utf8_lossy(w).into_owned());
            }
        }
        if i + 32 <= b.len() && b[i..i + 32].iter().all(|c| hex(*c)) {
            return Some(String::from_utf8_lossy(&b[i..i + 32]).into_owned());
        }
        i += 1;
    }
    None
}

fn main() {
    let path = std::env::args().nth(1).expect("usage: session_native <script.json>");
    let text = std::fs::read_to_string(&path).expect("cannot read the script");
    let script: Value = match serde_json::from_str(&text) {
        Ok(v) => v,
        Err(e) => {
            eprintln!("malformed script: {e}");
            std::process::exit(2);
        }
    };
    let rt = tokio::runtime::Builder::new_current_thread().build().unwrap();
    match rt.block_on(run(&script)) {
        Ok(()) => {
            println!("NOT REPRODUCED: every observation agrees with the reference model");
        }
        Err(Fail(msg)) if msg.starts_with("script error") => {
            eprintln!("{msg}");
            std::process::exit(2);
        }
        Err(Fail(msg)) => {
            println!("REPRODUCED: {msg}");
            std::process::exit(1);
        }
    }
}
