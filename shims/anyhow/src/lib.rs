//! Verification shim for `anyhow`: an opaque error value. Only `Ok`/`Err`-ness is kept, messages
//! and chains are dropped (they are never the subject of a property checked here).
#[derive(Debug)]
pub struct Error {
    _opaque: u8,
}
pub type Result<T, E = Error> = std::result::Result<T, E>;
impl Error {
    pub fn msg<M>(_m: M) -> Self { Error { _opaque: 1 } }
    pub fn new<E>(_e: E) -> Self { Error { _opaque: 1 } }
    pub fn context<C>(self, _c: C) -> Self { self }
}
impl std::fmt::Display for Error {
    fn fmt(&self, f: &mut std::fmt::Formatter<'_>) -> std::fmt::Result { f.write_str("error") }
}
// `anyhow::Error` is usable as a `#[source]` in thiserror derives through `AsRef<dyn Error>`.
#[derive(Debug)]
struct Opaque;
impl std::fmt::Display for Opaque {
    fn fmt(&self, f: &mut std::fmt::Formatter<'_>) -> std::fmt::Result { f.write_str("error") }
}
impl std::error::Error for Opaque {}
static OPAQUE: Opaque = Opaque;
impl AsRef<dyn std::error::Error + Send + Sync + 'static> for Error {
    fn as_ref(&self) -> &(dyn std::error::Error + Send + Sync + 'static) { &OPAQUE }
}
impl AsRef<dyn std::error::Error + 'static> for Error {
    fn as_ref(&self) -> &(dyn std::error::Error + 'static) { &OPAQUE }
}
impl std::ops::Deref for Error {
    type Target = dyn std::error::Error + Send + Sync + 'static;
    fn deref(&self) -> &Self::Target { &OPAQUE }
}
impl<E: std::error::Error + Send + Sync + 'static> From<E> for Error {
    fn from(_e: E) -> Self { Error { _opaque: 1 } }
}
pub trait Context<T> {
    fn context<C>(self, c: C) -> Result<T>;
    fn with_context<C, F: FnOnce() -> C>(self, f: F) -> Result<T>;
}
impl<T, E: Into<Error>> Context<T> for std::result::Result<T, E> {
    fn context<C>(self, _c: C) -> Result<T> { self.map_err(Into::into) }
    fn with_context<C, F: FnOnce() -> C>(self, _f: F) -> Result<T> { self.map_err(Into::into) }
}
impl<T> Context<T> for Option<T> {
    fn context<C>(self, _c: C) -> Result<T> { self.ok_or(Error { _opaque: 1 }) }
    fn with_context<C, F: FnOnce() -> C>(self, _f: F) -> Result<T> { self.ok_or(Error { _opaque: 1 }) }
}
#[macro_export]
macro_rules! anyhow { ($($t:tt)*) => { $crate::Error::msg(()) }; }
#[macro_export]
macro_rules! bail { ($($t:tt)*) => { return Err($crate::Error::msg(())) }; }
