//! Verification shim: after the de-async rewrite there is nothing left to transform.
use proc_macro::TokenStream;
#[proc_macro_attribute] pub fn async_trait(_a: TokenStream, item: TokenStream) -> TokenStream { item }
