//! Verification shim for `bytes` (C14): a heap-free byte buffer of at most `CAP` bytes with the part
//! of the `Bytes` / `Buf` surface that first-party body code uses. Contract kept: a `Bytes` is an
//! immutable sequence of bytes; `len`, `Deref<Target=[u8]>`, equality by content. Outside: reference
//! counting, slicing without copying, capacity beyond `CAP`.
pub const CAP: usize = 12;

#[derive(Clone, Copy)]
pub struct Bytes {
    buf: [u8; CAP],
    /// the content is buf[start..start+len] (so that `advance` is O(1))
    start: usize,
    len: usize,
}
impl Bytes {
    pub const fn new() -> Self {
        Bytes { buf: [0; CAP], start: 0, len: 0 }
    }
    pub fn from_static(s: &'static [u8]) -> Self {
        Self::copy_from_slice(s)
    }
    pub fn copy_from_slice(s: &[u8]) -> Self {
        let mut b = Bytes::new();
        b.extend(s);
        b
    }
    pub fn len(&self) -> usize {
        self.len
    }
    pub fn is_empty(&self) -> bool {
        self.len == 0
    }
    pub fn to_vec(&self) -> Vec<u8> {
        self.as_ref().to_vec()
    }
    /// shim-only: append (used by the `collect` shim); panics beyond CAP, which a harness must rule out
    pub fn extend(&mut self, s: &[u8]) {
        let mut i = 0;
        while i < s.len() {
            assert!(self.start + self.len < CAP, "verification shim: Bytes capacity exceeded");
            self.buf[self.start + self.len] = s[i];
            self.len += 1;
            i += 1;
        }
    }
    pub fn slice(&self, r: impl std::ops::RangeBounds<usize>) -> Bytes {
        use std::ops::Bound::*;
        let lo = match r.start_bound() { Included(&x) => x, Excluded(&x) => x + 1, Unbounded => 0 };
        let hi = match r.end_bound() { Included(&x) => x + 1, Excluded(&x) => x, Unbounded => self.len };
        Bytes::copy_from_slice(&self.as_ref()[lo..hi])
    }
    pub fn truncate(&mut self, n: usize) {
        if n < self.len {
            self.len = n;
        }
    }
}
impl Default for Bytes {
    fn default() -> Self {
        Bytes::new()
    }
}
impl AsRef<[u8]> for Bytes {
    fn as_ref(&self) -> &[u8] {
        &self.buf[self.start..self.start + self.len]
    }
}
impl std::ops::Deref for Bytes {
    type Target = [u8];
    fn deref(&self) -> &[u8] {
        &self.buf[self.start..self.start + self.len]
    }
}
impl std::fmt::Debug for Bytes {
    fn fmt(&self, f: &mut std::fmt::Formatter<'_>) -> std::fmt::Result {
        f.write_str("Bytes")
    }
}
impl PartialEq for Bytes {
    fn eq(&self, o: &Bytes) -> bool {
        if self.len != o.len {
            return false;
        }
        let mut i = 0;
        while i < self.len {
            if self.buf[self.start + i] != o.buf[o.start + i] {
                return false;
            }
            i += 1;
        }
        true
    }
}
impl Eq for Bytes {}
impl From<&'static [u8]> for Bytes {
    fn from(s: &'static [u8]) -> Self {
        Bytes::copy_from_slice(s)
    }
}
impl From<&'static str> for Bytes {
    fn from(s: &'static str) -> Self {
        Bytes::copy_from_slice(s.as_bytes())
    }
}
impl From<Vec<u8>> for Bytes {
    fn from(v: Vec<u8>) -> Self {
        Bytes::copy_from_slice(&v)
    }
}
impl From<String> for Bytes {
    fn from(v: String) -> Self {
        Bytes::copy_from_slice(v.as_bytes())
    }
}
impl From<Bytes> for Vec<u8> {
    fn from(b: Bytes) -> Vec<u8> {
        b.to_vec()
    }
}

pub trait Buf {
    fn remaining(&self) -> usize;
    fn chunk(&self) -> &[u8];
    fn advance(&mut self, cnt: usize);
    fn has_remaining(&self) -> bool {
        self.remaining() > 0
    }
    fn copy_to_bytes(&mut self, len: usize) -> Bytes {
        let b = Bytes::copy_from_slice(&self.chunk()[..len]);
        self.advance(len);
        b
    }
}
impl Buf for Bytes {
    fn remaining(&self) -> usize {
        self.len
    }
    fn chunk(&self) -> &[u8] {
        self.as_ref()
    }
    fn advance(&mut self, cnt: usize) {
        assert!(cnt <= self.len, "cannot advance past the end of the buffer");
        self.start += cnt;
        self.len -= cnt;
    }
}
impl<T: Buf + ?Sized> Buf for &mut T {
    fn remaining(&self) -> usize {
        (**self).remaining()
    }
    fn chunk(&self) -> &[u8] {
        (**self).chunk()
    }
    fn advance(&mut self, cnt: usize) {
        (**self).advance(cnt)
    }
}
impl Buf for &[u8] {
    fn remaining(&self) -> usize {
        self.len()
    }
    fn chunk(&self) -> &[u8] {
        self
    }
    fn advance(&mut self, cnt: usize) {
        *self = &self[cnt..];
    }
}

/// Growable buffer: same heap-free representation, `freeze()` turns it into `Bytes`. Capacity hints
/// (`with_capacity`, `reserve`) have no observable effect, as in the real crate.
#[derive(Clone, Copy, Default, PartialEq, Eq)]
pub struct BytesMut {
    inner: Bytes,
}
impl BytesMut {
    pub fn new() -> Self {
        BytesMut { inner: Bytes::new() }
    }
    pub fn with_capacity(_c: usize) -> Self {
        Self::new()
    }
    pub fn len(&self) -> usize {
        self.inner.len
    }
    pub fn is_empty(&self) -> bool {
        self.inner.len == 0
    }
    pub fn capacity(&self) -> usize {
        CAP
    }
    pub fn reserve(&mut self, _n: usize) {}
    pub fn extend_from_slice(&mut self, s: &[u8]) {
        self.inner.extend(s)
    }
    pub fn freeze(self) -> Bytes {
        self.inner
    }
    pub fn truncate(&mut self, n: usize) {
        self.inner.truncate(n)
    }
    pub fn clear(&mut self) {
        self.inner.len = 0;
    }
    pub fn split(&mut self) -> BytesMut {
        let out = *self;
        self.inner.len = 0;
        out
    }
}
impl AsRef<[u8]> for BytesMut {
    fn as_ref(&self) -> &[u8] {
        self.inner.as_ref()
    }
}
impl std::ops::Deref for BytesMut {
    type Target = [u8];
    fn deref(&self) -> &[u8] {
        self.inner.as_ref()
    }
}
impl std::fmt::Debug for BytesMut {
    fn fmt(&self, f: &mut std::fmt::Formatter<'_>) -> std::fmt::Result {
        f.write_str("BytesMut")
    }
}
impl From<BytesMut> for Bytes {
    fn from(b: BytesMut) -> Bytes {
        b.inner
    }
}
impl Extend<u8> for BytesMut {
    fn extend<I: IntoIterator<Item = u8>>(&mut self, it: I) {
        for b in it {
            self.inner.extend(&[b]);
        }
    }
}
pub trait BufMut {
    fn put_slice(&mut self, s: &[u8]);
    fn remaining_mut(&self) -> usize;
    /// takes everything that remains in `src`
    fn put<T: Buf>(&mut self, mut src: T)
    where
        Self: Sized,
    {
        while src.has_remaining() {
            let n = {
                let c = src.chunk();
                self.put_slice(c);
                c.len()
            };
            src.advance(n);
        }
    }
    fn put_u8(&mut self, b: u8) {
        self.put_slice(&[b])
    }
}
impl BufMut for BytesMut {
    fn put_slice(&mut self, s: &[u8]) {
        self.inner.extend(s)
    }
    fn remaining_mut(&self) -> usize {
        usize::MAX - self.inner.len
    }
}
impl BufMut for Vec<u8> {
    fn put_slice(&mut self, s: &[u8]) {
        self.extend_from_slice(s)
    }
    fn remaining_mut(&self) -> usize {
        usize::MAX - self.len()
    }
}
