//! Verification shim for `http-body-util` (C14), written from its documentation:
//!
//! * `Limited::new(body, limit)`: "A length limited body. This body will return an error if more
//!   than the configured number of bytes are returned on polling the wrapped body." - frames pass
//!   through while the running total stays <= limit; the first data frame that would exceed it is
//!   replaced by `LengthLimitError` (boxed), and the remaining allowance drops to zero.
//! * `BodyExt::collect()`: "Turn this body into `Collected` body which will collect all the DATA
//!   frames and trailers"; an error of the body is returned as is. (De-asynced: returns the
//!   `Result` the real future resolves to.)
//! * `Collected::to_bytes()`: the concatenation of the collected data frames.
//!
//! `verif::PULLED` counts the bytes the collectors took out of bodies (for "how much was buffered").
use bytes::{Buf, Bytes};
pub use http_body::{Body, Frame};

pub mod verif {
    /// total number of body bytes appended to a `Collected` buffer since the harness reset it
    pub static mut BUFFERED: usize = 0;
    /// the budget the last `Limited` was built with (what first-party code handed over)
    pub static mut LIMIT_SEEN: Option<usize> = None;
}

#[derive(Debug)]
pub struct LengthLimitError;
impl std::fmt::Display for LengthLimitError {
    fn fmt(&self, f: &mut std::fmt::Formatter<'_>) -> std::fmt::Result {
        f.write_str("length limit exceeded")
    }
}
impl std::error::Error for LengthLimitError {}

pub struct Limited<B> {
    remaining: usize,
    inner: B,
}
impl<B> Limited<B> {
    pub fn new(inner: B, limit: usize) -> Self {
        unsafe { verif::LIMIT_SEEN = Some(limit) };
        Limited { remaining: limit, inner }
    }
}
impl<B> Body for Limited<B>
where
    B: Body,
    B::Error: Into<Box<dyn std::error::Error + Send + Sync>>,
{
    type Data = B::Data;
    type Error = Box<dyn std::error::Error + Send + Sync>;
    fn next_frame(&mut self) -> Option<Result<Frame<Self::Data>, Self::Error>> {
        match self.inner.next_frame() {
            None => None,
            Some(Ok(frame)) => {
                if let Some(data) = frame.data_ref() {
                    if data.remaining() > self.remaining {
                        self.remaining = 0;
                        Some(Err(Box::new(LengthLimitError)))
                    } else {
                        self.remaining -= data.remaining();
                        Some(Ok(frame))
                    }
                } else {
                    Some(Ok(frame))
                }
            }
            Some(Err(e)) => Some(Err(e.into())),
        }
    }
}

pub struct Collected<D> {
    bytes: Bytes,
    _d: std::marker::PhantomData<D>,
}
impl<D> Collected<D> {
    pub fn to_bytes(self) -> Bytes {
        self.bytes
    }
    pub fn aggregate(self) -> Bytes {
        self.bytes
    }
}

pub trait BodyExt: Body {
    /// "Returns a future that resolves to the next `Frame`, if any." (de-asynced: the value it resolves to)
    fn frame(&mut self) -> Option<Result<Frame<Self::Data>, Self::Error>>
    where
        Self: Unpin,
    {
        self.next_frame()
    }
    fn collect(mut self) -> Result<Collected<Self::Data>, Self::Error>
    where
        Self: Sized,
    {
        let mut out = Bytes::new();
        loop {
            match self.next_frame() {
                None => return Ok(Collected { bytes: out, _d: std::marker::PhantomData }),
                Some(Err(e)) => return Err(e),
                Some(Ok(f)) => {
                    if let Some(d) = f.data_ref() {
                        unsafe { verif::BUFFERED += d.remaining() };
                        out.extend(d.chunk());
                    }
                }
            }
        }
    }
}
impl<T: Body + ?Sized> BodyExt for T {}

/// `Full`: a body of one data frame (empty body if the buffer is empty)
pub struct Full<D> {
    data: Option<D>,
}
impl<D: Buf> Full<D> {
    pub fn new(d: D) -> Self {
        Full { data: if d.has_remaining() { Some(d) } else { None } }
    }
}
impl<D: Buf> Body for Full<D> {
    type Data = D;
    type Error = std::convert::Infallible;
    fn next_frame(&mut self) -> Option<Result<Frame<D>, Self::Error>> {
        self.data.take().map(|d| Ok(Frame::Data(d)))
    }
}
