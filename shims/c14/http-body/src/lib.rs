//! Verification shim for `http-body` (C14). The real trait is poll-based
//! (`poll_frame(Pin<&mut Self>, &mut Context) -> Poll<Option<Result<Frame<Data>, Error>>>`); the
//! de-asynced contract kept here is the sequence it denotes: `next_frame` yields the frames of the
//! body in order, then `None`; an `Err` ends the body. Outside: wake-ups, `Poll::Pending`.
use bytes::Buf;

pub enum Frame<T> {
    Data(T),
    /// trailers carry no body bytes
    Trailers,
}
impl<T> Frame<T> {
    pub fn data(d: T) -> Self {
        Frame::Data(d)
    }
    pub fn is_data(&self) -> bool {
        matches!(self, Frame::Data(_))
    }
    pub fn is_trailers(&self) -> bool {
        matches!(self, Frame::Trailers)
    }
    pub fn data_ref(&self) -> Option<&T> {
        match self {
            Frame::Data(d) => Some(d),
            _ => None,
        }
    }
    pub fn into_data(self) -> Result<T, Self> {
        match self {
            Frame::Data(d) => Ok(d),
            o => Err(o),
        }
    }
}

pub trait Body {
    type Data: Buf;
    type Error;
    fn next_frame(&mut self) -> Option<Result<Frame<Self::Data>, Self::Error>>;
}
