//! Verification shim for `http-body` (C14). The real trait is poll-based
//! (`poll_frame(Pin<&mut Self>, &mut Context) -> Poll<Option<Result<Frame<Data>, Error>>>`); the
//! de-asynced contract kept here is the sequence it denotes: `next_frame` yields the frames of the
//! body in order, then `None`; an `Err` ends the body. Outside: wake-ups, `Poll::Pending`.
use bytes::Buf;

pub enum Frame<T> {
    Data(T),
    /// trailers carry no body bytes
    Trailers,
}
impl<T> Frame<T> {
    pub fn data(d: T) -> Self {
        Frame::Data(d)
    }
    pub fn is_data(&self) -> bool {
        matches!(self, Frame::Data(_))
    }
    pub fn is_trailers(&self) -> bool {
        matches!(self, Frame::Trailers)
    }
    pub fn data_ref(&self) -> Option<&T> {
        match self {
            Frame::Data(d) => Some(d),
            _ => None,
        }
    }
    pub fn trailers() -> Self {
        Frame::Trailers
    }
    pub fn data_mut(&mut self) -> Option<&mut T> {
        match self {
            Frame::Data(d) => Some(d),
            _ => None,
        }
    }
    pub fn map_data<F, D>(self, f: F) -> Frame<D>
    where
        F: FnOnce(T) -> D,
    {
        match self {
            Frame::Data(d) => Frame::Data(f(d)),
            Frame::Trailers => Frame::Trailers,
        }
    }
    pub fn into_data(self) -> Result<T, Self> {
        match self {
            Frame::Data(d) => Ok(d),
            o => Err(o),
        }
    }
}

pub trait Body {
    type Data: Buf;
    type Error;
    fn next_frame(&mut self) -> Option<Result<Frame<Self::Data>, Self::Error>>;
}

impl<T: Body + ?Sized> Body for &mut T {
    type Data = T::Data;
    type Error = T::Error;
    fn next_frame(&mut self) -> Option<Result<Frame<Self::Data>, Self::Error>> {
        (**self).next_frame()
    }
}
impl<T: Body + ?Sized> Body for Box<T> {
    type Data = T::Data;
    type Error = T::Error;
    fn next_frame(&mut self) -> Option<Result<Frame<Self::Data>, Self::Error>> {
        (**self).next_frame()
    }
}
impl<P> Body for std::pin::Pin<P>
where
    P: std::ops::DerefMut + Unpin,
    P::Target: Body,
{
    type Data = <P::Target as Body>::Data;
    type Error = <P::Target as Body>::Error;
    fn next_frame(&mut self) -> Option<Result<Frame<Self::Data>, Self::Error>> {
        // the shim bodies are plain data: nothing is self-referential, and `next_frame` does not move out
        unsafe { self.as_mut().get_unchecked_mut() }.next_frame()
    }
}
