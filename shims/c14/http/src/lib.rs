//! Verification shim for `http` (C14): heap-free records for the parts of a request head that the
//! body extractors read. Contract kept (from the crate's documentation):
//! * `HeaderMap::get(name)` returns the first value stored under `name` (names are compared as
//!   header names, i.e. case-insensitively - the constants are already lower-case);
//! * `HeaderValue::to_str()` succeeds iff every byte is visible ASCII (32..=126) or a tab and then
//!   yields exactly those bytes; `as_bytes()` yields the raw bytes.
//! Outside: hashing, multi-valued iteration, header-name validation, `Uri` parsing.
pub mod header {
    /// 6 bytes are enough for a Content-Length value (C14); the content-type harnesses (C15, body and
    /// query extractors) need whole media types
    #[cfg(not(feature = "long_values"))]
    pub const VALUE_CAP: usize = 6;
    #[cfg(feature = "long_values")]
    pub const VALUE_CAP: usize = 56;
    pub const MAP_CAP: usize = 2;

    #[derive(Clone, Copy, PartialEq, Eq, Debug)]
    pub struct HeaderName(pub(crate) u8);
    pub const CONTENT_LENGTH: HeaderName = HeaderName(1);
    pub const CONTENT_TYPE: HeaderName = HeaderName(2);
    pub const TRANSFER_ENCODING: HeaderName = HeaderName(3);
    pub const CONTENT_ENCODING: HeaderName = HeaderName(4);
    pub const HOST: HeaderName = HeaderName(5);
    pub const CONTENT_RANGE: HeaderName = HeaderName(6);
    pub const EXPECT: HeaderName = HeaderName(7);
    pub const ALLOW: HeaderName = HeaderName(8);
    impl HeaderName {
        pub fn as_str(&self) -> &'static str {
            match self.0 {
                1 => "content-length",
                2 => "content-type",
                3 => "transfer-encoding",
                4 => "content-encoding",
                5 => "host",
                6 => "content-range",
                7 => "expect",
                8 => "allow",
                _ => "x-other",
            }
        }
        pub fn from_static(s: &'static str) -> HeaderName {
            name_of(s)
        }
    }
    fn eq_ignore_case(a: &str, b: &str) -> bool {
        let (a, b) = (a.as_bytes(), b.as_bytes());
        if a.len() != b.len() {
            return false;
        }
        let mut i = 0;
        while i < a.len() {
            if a[i].to_ascii_lowercase() != b[i] {
                return false;
            }
            i += 1;
        }
        true
    }
    fn name_of(s: &str) -> HeaderName {
        let mut id = 1u8;
        while id <= 8 {
            if eq_ignore_case(s, HeaderName(id).as_str()) {
                return HeaderName(id);
            }
            id += 1;
        }
        HeaderName(0)
    }

    pub trait AsHeaderName {
        fn name(&self) -> HeaderName;
    }
    impl AsHeaderName for HeaderName {
        fn name(&self) -> HeaderName {
            *self
        }
    }
    impl AsHeaderName for &HeaderName {
        fn name(&self) -> HeaderName {
            **self
        }
    }
    impl AsHeaderName for &str {
        fn name(&self) -> HeaderName {
            name_of(self)
        }
    }
    impl AsHeaderName for String {
        fn name(&self) -> HeaderName {
            name_of(self)
        }
    }
    impl AsHeaderName for &String {
        fn name(&self) -> HeaderName {
            name_of(self)
        }
    }

    #[derive(Debug)]
    pub struct InvalidHeaderValue;
    impl std::fmt::Display for InvalidHeaderValue {
        fn fmt(&self, f: &mut std::fmt::Formatter<'_>) -> std::fmt::Result {
            f.write_str("failed to parse header value")
        }
    }
    impl std::error::Error for InvalidHeaderValue {}
    #[derive(Debug)]
    pub struct ToStrError;
    impl std::fmt::Display for ToStrError {
        fn fmt(&self, f: &mut std::fmt::Formatter<'_>) -> std::fmt::Result {
            f.write_str("failed to convert header to a str")
        }
    }
    impl std::error::Error for ToStrError {}

    #[derive(Clone, Copy, Debug, PartialEq, Eq)]
    pub struct HeaderValue {
        buf: [u8; VALUE_CAP],
        len: usize,
    }
    impl HeaderValue {
        pub fn from_static(s: &'static str) -> Self {
            Self::from_bytes_unchecked(s.as_bytes())
        }
        /// shim-only constructor
        pub fn from_bytes_unchecked(s: &[u8]) -> Self {
            let mut v = HeaderValue { buf: [0; VALUE_CAP], len: 0 };
            let mut i = 0;
            while i < s.len() && i < VALUE_CAP {
                v.buf[i] = s[i];
                i += 1;
            }
            v.len = i;
            v
        }
        /// "If the argument contains invalid header value characters, an error is returned. Only
        /// visible ASCII characters (32-127) are permitted."
        pub fn from_str(s: &str) -> Result<Self, InvalidHeaderValue> {
            let b = s.as_bytes();
            if b.len() > VALUE_CAP {
                panic!("verification shim: header value capacity exceeded");
            }
            let mut i = 0;
            while i < b.len() {
                if !(b[i] == b'\t' || (b[i] >= 32 && b[i] < 127)) {
                    return Err(InvalidHeaderValue);
                }
                i += 1;
            }
            Ok(Self::from_bytes_unchecked(b))
        }
        pub fn as_bytes(&self) -> &[u8] {
            &self.buf[..self.len]
        }
        pub fn len(&self) -> usize {
            self.len
        }
        pub fn is_empty(&self) -> bool {
            self.len == 0
        }
        pub fn to_str(&self) -> Result<&str, ToStrError> {
            let b = self.as_bytes();
            let mut i = 0;
            while i < b.len() {
                let c = b[i];
                if !(c == b'\t' || (c >= 32 && c < 127)) {
                    return Err(ToStrError);
                }
                i += 1;
            }
            // all bytes are ASCII, hence valid UTF-8
            Ok(unsafe { std::str::from_utf8_unchecked(b) })
        }
    }
    impl AsRef<[u8]> for HeaderValue {
        fn as_ref(&self) -> &[u8] {
            self.as_bytes()
        }
    }

    #[derive(Clone, Copy, Debug)]
    pub struct HeaderMap<T = HeaderValue> {
        slots: [Option<(HeaderName, T)>; MAP_CAP],
    }
    impl<T: Copy> HeaderMap<T> {
        pub fn new() -> Self {
            HeaderMap { slots: [None; MAP_CAP] }
        }
        pub fn get<K: AsHeaderName>(&self, k: K) -> Option<&T> {
            let n = k.name();
            let mut i = 0;
            while i < MAP_CAP {
                if let Some((name, v)) = &self.slots[i] {
                    if *name == n {
                        return Some(v);
                    }
                }
                i += 1;
            }
            None
        }
        pub fn contains_key<K: AsHeaderName>(&self, k: K) -> bool {
            self.get(k).is_some()
        }
        /// appends (shim: the first value under a name is the one `get` returns, as in `http`)
        pub fn append<K: AsHeaderName>(&mut self, k: K, v: T) -> bool {
            let n = k.name();
            let mut i = 0;
            while i < MAP_CAP {
                if self.slots[i].is_none() {
                    self.slots[i] = Some((n, v));
                    return true;
                }
                i += 1;
            }
            panic!("verification shim: HeaderMap capacity exceeded")
        }
        pub fn insert<K: AsHeaderName>(&mut self, k: K, v: T) -> Option<T> {
            let n = k.name();
            let mut i = 0;
            while i < MAP_CAP {
                if let Some((name, old)) = &mut self.slots[i] {
                    if *name == n {
                        let o = *old;
                        *old = v;
                        return Some(o);
                    }
                }
                i += 1;
            }
            self.append(n, v);
            None
        }
        pub fn len(&self) -> usize {
            let mut c = 0;
            let mut i = 0;
            while i < MAP_CAP {
                if self.slots[i].is_some() {
                    c += 1;
                }
                i += 1;
            }
            c
        }
        pub fn is_empty(&self) -> bool {
            self.len() == 0
        }
    }
    impl<T: Copy> Default for HeaderMap<T> {
        fn default() -> Self {
            Self::new()
        }
    }
}
pub use header::{HeaderMap, HeaderName, HeaderValue};

#[derive(Clone, Copy, Debug, PartialEq, Eq)]
pub struct Method(pub u8);
impl Method {
    pub const GET: Method = Method(0);
    pub const POST: Method = Method(1);
    pub const PUT: Method = Method(2);
    pub const DELETE: Method = Method(3);
    pub const HEAD: Method = Method(4);
    pub const OPTIONS: Method = Method(5);
    pub const CONNECT: Method = Method(6);
    pub const PATCH: Method = Method(7);
    pub const TRACE: Method = Method(8);
    /// shim-only: an extension method (the real crate builds them with `Method::from_bytes`)
    pub const PURGE: Method = Method(9);
    pub fn as_str(&self) -> &str {
        match self.0 {
            0 => "GET",
            1 => "POST",
            2 => "PUT",
            3 => "DELETE",
            4 => "HEAD",
            5 => "OPTIONS",
            6 => "CONNECT",
            7 => "PATCH",
            8 => "TRACE",
            _ => "PURGE",
        }
    }
}
impl AsRef<str> for Method {
    fn as_ref(&self) -> &str {
        self.as_str()
    }
}
impl std::fmt::Display for Method {
    fn fmt(&self, f: &mut std::fmt::Formatter<'_>) -> std::fmt::Result {
        f.write_str(self.as_str())
    }
}
/// Request target. Contract kept: the path is `/p`; `query()` is the part after the first `?`
/// (without it), if any; `path_and_query()` is `path ["?" query]`.
pub const QUERY_CAP: usize = 8;
pub mod uri {
    use super::QUERY_CAP;
    #[derive(Clone, Copy, Debug, PartialEq, Eq)]
    pub struct PathAndQuery {
        pub(crate) buf: [u8; QUERY_CAP + 3],
        pub(crate) len: usize,
        pub(crate) has_query: bool,
    }
    impl PathAndQuery {
        pub fn as_str(&self) -> &str {
            // harness precondition: ASCII
            unsafe { std::str::from_utf8_unchecked(&self.buf[..self.len]) }
        }
        pub fn path(&self) -> &str {
            "/p"
        }
        pub fn query(&self) -> Option<&str> {
            if self.has_query {
                Some(unsafe { std::str::from_utf8_unchecked(&self.buf[3..self.len]) })
            } else {
                None
            }
        }
    }
    impl std::fmt::Display for PathAndQuery {
        fn fmt(&self, f: &mut std::fmt::Formatter<'_>) -> std::fmt::Result {
            f.write_str(self.as_str())
        }
    }
}
#[derive(Clone, Copy, Debug, PartialEq, Eq)]
pub struct Uri {
    pq: uri::PathAndQuery,
}
#[allow(non_upper_case_globals)]
impl Uri {
    /// shim-only: a target without a query string (`http::Uri` used to be a unit struct in this shim;
    /// the constant of the same name keeps `target: http::Uri` compiling)
    pub const fn without_query() -> Uri {
        let mut buf = [0u8; QUERY_CAP + 3];
        buf[0] = b'/';
        buf[1] = b'p';
        Uri { pq: uri::PathAndQuery { buf, len: 2, has_query: false } }
    }
    /// shim-only: a target whose query string is the given ASCII bytes
    pub fn with_query(b: &[u8]) -> Uri {
        let mut u = Uri::without_query();
        u.pq.buf[2] = b'?';
        u.pq.has_query = true;
        let mut i = 0;
        while i < b.len() && i < QUERY_CAP {
            u.pq.buf[3 + i] = b[i];
            i += 1;
        }
        u.pq.len = 3 + i;
        u
    }
    pub fn query(&self) -> Option<&str> {
        self.pq.query()
    }
    pub fn path(&self) -> &str {
        "/p"
    }
    pub fn path_and_query(&self) -> Option<&uri::PathAndQuery> {
        Some(&self.pq)
    }
}
impl std::fmt::Display for Uri {
    fn fmt(&self, f: &mut std::fmt::Formatter<'_>) -> std::fmt::Result {
        f.write_str(self.pq.as_str())
    }
}
#[allow(non_upper_case_globals)]
pub const Uri: Uri = Uri::without_query();
#[derive(Clone, Copy, Debug, PartialEq, Eq)]
pub struct Version(pub u8);
impl Version {
    pub const HTTP_11: Version = Version(1);
}
pub mod request {
    pub struct Parts {
        pub method: super::Method,
        pub uri: super::Uri,
        pub version: super::Version,
        pub headers: super::HeaderMap,
    }
}
