//! Verification shim for `hyper` (C14): `hyper::body::Body` is a re-export of `http_body::Body`,
//! as in the real crate.
pub mod body {
    pub use http_body::{Body, Frame};
}
