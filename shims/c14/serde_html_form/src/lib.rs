//! Verification shim (C14): only the error type that `request/body/errors.rs` names.
pub mod de {
    #[derive(Debug)]
    pub struct Error;
    impl std::fmt::Display for Error {
        fn fmt(&self, f: &mut std::fmt::Formatter<'_>) -> std::fmt::Result {
            f.write_str("form error")
        }
    }
    impl std::error::Error for Error {}
}
