//! Verification shim (C14): only the error type that `request/body/errors.rs` names.
#[derive(Debug)]
pub struct Error<E>(pub E);
impl<E: std::fmt::Display> std::fmt::Display for Error<E> {
    fn fmt(&self, f: &mut std::fmt::Formatter<'_>) -> std::fmt::Result {
        self.0.fmt(f)
    }
}
impl<E: std::error::Error + 'static> std::error::Error for Error<E> {}
