//! Verification shim for `form_urlencoded` (C15, query extractor). Contract kept: `parse(input)` is a
//! (lazy) parser over exactly the bytes `input`; the shim only remembers them so that the harness can
//! compare what reached the third-party parser with what the client sent. Outside: the
//! `application/x-www-form-urlencoded` syntax itself (splitting on `&`/`=`, `+`, percent-decoding).
#[derive(Clone, Copy)]
pub struct Parse<'a> {
    pub input: &'a [u8],
}
pub fn parse(input: &[u8]) -> Parse<'_> {
    Parse { input }
}
