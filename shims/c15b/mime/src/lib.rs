//! Verification shim for `mime` (C15, body extractors): the real crate's parser on a 30-byte constant
//! does not finish in CBMC (lookup tables, `Source` strings, parameter vectors). Contract kept, from
//! the crate's documentation: a media type is `type "/" subtype ["+" suffix] *(";" parameter)`, type
//! / subtype / suffix are non-empty tokens (no whitespace, no further "/"), parsing lower-cases them;
//! `type_()`, `subtype()` (without the suffix), `suffix()`; names compare equal to `&str`s and to each
//! other by content. Outside: parameters (skipped, never inspected), the full RFC 7231 token alphabet.
pub const CAP: usize = 56;

#[derive(Clone, Copy, Debug)]
pub struct Mime {
    src: [u8; CAP],
    /// end of the essence (index of ';' or of trailing whitespace, or len)
    end: usize,
    slash: usize,
    plus: Option<usize>,
}
#[derive(Debug)]
pub struct FromStrError;
impl std::fmt::Display for FromStrError {
    fn fmt(&self, f: &mut std::fmt::Formatter<'_>) -> std::fmt::Result {
        f.write_str("mime parse error")
    }
}
impl std::error::Error for FromStrError {}

fn is_token(c: u8) -> bool {
    c.is_ascii_alphanumeric() || matches!(c, b'!' | b'#' | b'$' | b'&' | b'-' | b'^' | b'_' | b'.' | b'+')
}

impl std::str::FromStr for Mime {
    type Err = FromStrError;
    fn from_str(s: &str) -> Result<Mime, FromStrError> {
        let b = s.as_bytes();
        if b.len() > CAP {
            return Err(FromStrError);
        }
        let mut m = Mime { src: [0; CAP], end: 0, slash: 0, plus: None };
        let mut i = 0;
        let mut slash = None;
        while i < b.len() {
            let c = b[i];
            if c == b';' || c == b' ' {
                break;
            }
            if c == b'/' {
                if slash.is_some() || i == 0 {
                    return Err(FromStrError);
                }
                slash = Some(i);
            } else if !is_token(c) {
                return Err(FromStrError);
            } else if c == b'+' {
                if slash.is_none() {
                    return Err(FromStrError);
                }
                // the suffix starts after the LAST plus sign
                m.plus = Some(i);
            }
            m.src[i] = c.to_ascii_lowercase();
            i += 1;
        }
        m.end = i;
        // after the essence: optional whitespace, then either the end or ";" parameters
        let mut j = i;
        while j < b.len() && b[j] == b' ' {
            j += 1;
        }
        if j < b.len() && b[j] != b';' {
            return Err(FromStrError);
        }
        let Some(sl) = slash else { return Err(FromStrError) };
        m.slash = sl;
        if sl + 1 >= m.end {
            return Err(FromStrError);
        }
        if let Some(p) = m.plus {
            if p == sl + 1 || p + 1 >= m.end {
                return Err(FromStrError);
            }
        }
        Ok(m)
    }
}

impl Mime {
    fn part(&self, lo: usize, hi: usize) -> Name<'_> {
        Name { source: unsafe { std::str::from_utf8_unchecked(&self.src[lo..hi]) } }
    }
    pub fn type_(&self) -> Name<'_> {
        self.part(0, self.slash)
    }
    pub fn subtype(&self) -> Name<'_> {
        self.part(self.slash + 1, self.plus.unwrap_or(self.end))
    }
    pub fn suffix(&self) -> Option<Name<'_>> {
        self.plus.map(|p| self.part(p + 1, self.end))
    }
    pub fn essence_str(&self) -> &str {
        unsafe { std::str::from_utf8_unchecked(&self.src[..self.end]) }
    }
    /// parameters are outside the shim
    pub fn get_param<'a, N>(&'a self, _name: N) -> Option<Name<'a>> {
        None
    }
}

#[derive(Clone, Copy, Debug)]
pub struct Name<'a> {
    source: &'a str,
}
fn eq(a: &str, b: &str) -> bool {
    let (a, b) = (a.as_bytes(), b.as_bytes());
    if a.len() != b.len() {
        return false;
    }
    let mut i = 0;
    while i < a.len() {
        if a[i].to_ascii_lowercase() != b[i].to_ascii_lowercase() {
            return false;
        }
        i += 1;
    }
    true
}
impl<'a> Name<'a> {
    pub fn as_str(&self) -> &'a str {
        self.source
    }
}
impl<'a, 'b> PartialEq<Name<'b>> for Name<'a> {
    fn eq(&self, o: &Name<'b>) -> bool {
        eq(self.source, o.source)
    }
}
impl<'a> PartialEq<str> for Name<'a> {
    fn eq(&self, o: &str) -> bool {
        eq(self.source, o)
    }
}
impl<'a, 'b> PartialEq<&'b str> for Name<'a> {
    fn eq(&self, o: &&'b str) -> bool {
        eq(self.source, o)
    }
}
impl<'a, 'b> PartialEq<Name<'a>> for &'b str {
    fn eq(&self, o: &Name<'a>) -> bool {
        eq(self, o.source)
    }
}
impl<'a> AsRef<str> for Name<'a> {
    fn as_ref(&self) -> &str {
        self.source
    }
}
impl<'a> From<Name<'a>> for &'a str {
    fn from(n: Name<'a>) -> &'a str {
        n.source
    }
}
impl<'a> std::fmt::Display for Name<'a> {
    fn fmt(&self, f: &mut std::fmt::Formatter<'_>) -> std::fmt::Result {
        f.write_str(self.source)
    }
}
macro_rules! names {
    ($($id:ident = $s:literal),* $(,)?) => { $( pub const $id: Name<'static> = Name { source: $s }; )* };
}
names! {
    STAR = "*", TEXT = "text", IMAGE = "image", AUDIO = "audio", VIDEO = "video", APPLICATION = "application",
    MULTIPART = "multipart", MESSAGE = "message", MODEL = "model", FONT = "font",
    PLAIN = "plain", HTML = "html", XML = "xml", JAVASCRIPT = "javascript", CSS = "css", CSV = "csv",
    EVENT_STREAM = "event-stream", JSON = "json", WWW_FORM_URLENCODED = "x-www-form-urlencoded",
    MSGPACK = "msgpack", OCTET_STREAM = "octet-stream", PDF = "pdf", FORM_DATA = "form-data",
    CHARSET = "charset", BOUNDARY = "boundary", UTF_8 = "utf-8",
}
