//! Verification shim for `serde_html_form` (C15, query and form extractors) as an opaque third-party
//! parser. Contract kept: `from_bytes(b)` / `from_str(s)` / `Deserializer::new(form_urlencoded::parse(b))`
//! parse exactly those bytes into a `T`, or fail with `de::Error`. As in the `serde_json` shim, a target
//! type that asks for bytes is handed the very input of the parser, and `verif::FAIL` makes it fail.
//! Outside: the form syntax and percent-decoding performed by the real crates (trusted).
pub mod verif {
    pub static mut FAIL: bool = false;
    pub static mut BUILT: u8 = 0;
}
pub mod de {
    #[derive(Debug)]
    pub struct Error;
    impl std::fmt::Display for Error {
        fn fmt(&self, f: &mut std::fmt::Formatter<'_>) -> std::fmt::Result {
            f.write_str("form error")
        }
    }
    impl std::error::Error for Error {}
    impl serde::de::Error for Error {
        fn custom<T: std::fmt::Display>(_msg: T) -> Self {
            Error
        }
    }
}
pub struct Deserializer<'de> {
    input: &'de [u8],
}
impl<'de> Deserializer<'de> {
    pub fn new(parse: form_urlencoded::Parse<'de>) -> Self {
        unsafe { verif::BUILT += 1 };
        Deserializer { input: parse.input }
    }
    pub fn from_bytes(input: &'de [u8]) -> Self {
        Self::new(form_urlencoded::parse(input))
    }
}
impl<'de> serde::Deserializer<'de> for Deserializer<'de> {
    type Error = de::Error;
    fn deserialize_any<V: serde::de::Visitor<'de>>(self, visitor: V) -> Result<V::Value, de::Error> {
        if unsafe { verif::FAIL } {
            return Err(de::Error);
        }
        visitor.visit_borrowed_bytes(self.input)
    }
    serde::forward_to_deserialize_any! {
        bool i8 i16 i32 i64 i128 u8 u16 u32 u64 u128 f32 f64 char str string
        bytes byte_buf option unit unit_struct newtype_struct seq tuple
        tuple_struct map struct enum identifier ignored_any
    }
}
pub fn from_bytes<'de, T: serde::Deserialize<'de>>(input: &'de [u8]) -> Result<T, de::Error> {
    T::deserialize(Deserializer::from_bytes(input))
}
pub fn from_str<'de, T: serde::Deserialize<'de>>(input: &'de str) -> Result<T, de::Error> {
    from_bytes(input.as_bytes())
}
