//! Verification shim for `serde_json` (C15, body extractors): the *streaming deserializer over a byte
//! slice* as an opaque third-party parser. Contract kept: `Deserializer::from_slice(b)` parses exactly
//! the bytes `b`; deserializing a `T` from it either succeeds or fails with `Error`.
//! The shim makes both ends observable instead of parsing JSON: a target type that asks for bytes
//! (`deserialize_bytes`) is handed the very slice the deserializer was built from, so a harness can
//! compare what reached the parser with what the client sent; `verif::FAIL` makes the parse fail.
//! Outside: JSON itself (trusted third-party code).
pub mod verif {
    /// harness-controlled: the document is malformed for the target type
    pub static mut FAIL: bool = false;
    /// harness-controlled: bytes other than whitespace follow the first JSON value of the document
    /// (`{"a":1}garbage`, two documents, ...): deserializing a value succeeds, `Deserializer::end()` and
    /// the `from_slice` / `from_str` convenience functions report the trailing characters
    pub static mut TRAILING: bool = false;
    /// number of deserializers built from a slice
    pub static mut BUILT: u8 = 0;
}
#[derive(Debug)]
pub struct Error;
impl std::fmt::Display for Error {
    fn fmt(&self, f: &mut std::fmt::Formatter<'_>) -> std::fmt::Result {
        f.write_str("json error")
    }
}
impl std::error::Error for Error {}
impl serde::de::Error for Error {
    fn custom<T: std::fmt::Display>(_msg: T) -> Self {
        Error
    }
}
pub type Result<T> = std::result::Result<T, Error>;

pub mod de {
    pub struct SliceRead<'a> {
        pub(crate) slice: &'a [u8],
    }
    pub struct StrRead<'a> {
        pub(crate) inner: SliceRead<'a>,
    }
    pub trait Read<'de> {
        fn input(&self) -> &'de [u8];
    }
    impl<'de> Read<'de> for SliceRead<'de> {
        fn input(&self) -> &'de [u8] {
            self.slice
        }
    }
    impl<'de> Read<'de> for StrRead<'de> {
        fn input(&self) -> &'de [u8] {
            self.inner.slice
        }
    }
}

pub struct Deserializer<R> {
    read: R,
}
impl<'a> Deserializer<de::SliceRead<'a>> {
    pub fn from_slice(bytes: &'a [u8]) -> Self {
        unsafe { verif::BUILT += 1 };
        Deserializer { read: de::SliceRead { slice: bytes } }
    }
}
impl<'a> Deserializer<de::StrRead<'a>> {
    pub fn from_str(s: &'a str) -> Self {
        unsafe { verif::BUILT += 1 };
        Deserializer { read: de::StrRead { inner: de::SliceRead { slice: s.as_bytes() } } }
    }
}
impl<'de, R: de::Read<'de>> Deserializer<R> {
    /// "This method should be called after a value has been fully deserialized. It allows the
    /// Deserializer to validate that the input stream is at the end or that it only has trailing
    /// whitespace."
    pub fn end(&mut self) -> Result<()> {
        if unsafe { verif::TRAILING } {
            return Err(Error);
        }
        Ok(())
    }
}
impl<'de, 'a, R: de::Read<'de>> serde::Deserializer<'de> for &'a mut Deserializer<R> {
    type Error = Error;
    fn deserialize_any<V: serde::de::Visitor<'de>>(self, visitor: V) -> Result<V::Value> {
        if unsafe { verif::FAIL } {
            return Err(Error);
        }
        visitor.visit_borrowed_bytes(self.read.input())
    }
    serde::forward_to_deserialize_any! {
        bool i8 i16 i32 i64 i128 u8 u16 u32 u64 u128 f32 f64 char str string
        bytes byte_buf option unit unit_struct newtype_struct seq tuple
        tuple_struct map struct enum identifier ignored_any
    }
}
pub fn from_slice<'a, T: serde::Deserialize<'a>>(v: &'a [u8]) -> Result<T> {
    let mut d = Deserializer::from_slice(v);
    let t = T::deserialize(&mut d)?;
    d.end()?;
    Ok(t)
}
pub fn from_str<'a, T: serde::Deserialize<'a>>(s: &'a str) -> Result<T> {
    from_slice(s.as_bytes())
}
