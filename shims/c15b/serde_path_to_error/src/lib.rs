//! Verification shim for `serde_path_to_error` (C15, body and query extractors). Contract kept:
//! `deserialize(d)` deserializes a `T` from `d` and wraps the deserializer's error. Outside: the path
//! bookkeeping (only used for messages).
#[derive(Debug)]
pub struct Error<E>(pub E);
/// The path at which an error occurred (only used for messages: opaque here).
#[derive(Debug, Clone, Default)]
pub struct Path;
/// State for tracking the path during deserialization.
#[derive(Debug, Default)]
pub struct Track;
impl Track {
    pub fn new() -> Self {
        Track
    }
    pub fn path(self) -> Path {
        Path
    }
}
impl<E> Error<E> {
    pub fn new(_path: Path, inner: E) -> Self {
        Error(inner)
    }
    pub fn path(&self) -> &Path {
        &Path
    }
    pub fn inner(&self) -> &E {
        &self.0
    }
    pub fn into_inner(self) -> E {
        self.0
    }
}
impl<E: std::fmt::Display> std::fmt::Display for Error<E> {
    fn fmt(&self, f: &mut std::fmt::Formatter<'_>) -> std::fmt::Result {
        self.0.fmt(f)
    }
}
impl<E: std::error::Error + 'static> std::error::Error for Error<E> {}

pub fn deserialize<'de, D, T>(deserializer: D) -> Result<T, Error<D::Error>>
where
    D: serde::Deserializer<'de>,
    T: serde::Deserialize<'de>,
{
    T::deserialize(deserializer).map_err(Error)
}
