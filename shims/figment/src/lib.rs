//! Verification shim for `figment`: sources are abstract (per-key optional values supplied by the
//! harness); `merge` = later source wins, `join` = earlier source wins (figment's documented
//! semantics). Parameters handed to the providers are recorded so the harness can assert them.
use serde::de::{self, DeserializeOwned, IntoDeserializer};
pub const K: usize = 2;
pub const KEYS: [&str; K] = ["k0", "k1"];
#[derive(Clone, Copy, PartialEq, Eq, Debug)]
pub enum Src { Base, Profile, Env }
pub mod verif {
    use super::*;
    /// [source][key] -> value the source assigns to the key, if any.
    pub static mut VALUES: [[Option<u8>; K]; 3] = [[None; K]; 3];
    pub static mut ENV_PREFIX_OK: bool = false;
    pub static mut ENV_SPLIT_OK: bool = false;
    pub static mut PROFILE_FILE_OK: bool = false;
    pub static mut BASE_FILE_OK: bool = false;
    /// the 8-byte suffix the profile file name must end with (set by the harness)
    pub static mut EXPECT_PROFILE_FILE: [u8; 8] = *b"/dev.yml";
    /// the directory the files must be looked up in (set by the harness): the full path handed to
    /// `Yaml::file` must be `<dir>/<file>`
    pub static mut EXPECT_DIR: &str = "conf";
    pub static mut DIR_OK: bool = true;
}
#[derive(Clone, Copy)]
pub struct Layer { src: Src, join: bool }
pub struct Figment { layers: [Option<Layer>; 4], n: usize }
pub trait Provider { fn src(&self) -> Src; }
#[derive(Debug)]
pub struct Error;
impl std::fmt::Display for Error { fn fmt(&self, f: &mut std::fmt::Formatter<'_>) -> std::fmt::Result { f.write_str("figment error") } }
impl std::error::Error for Error {}
impl de::Error for Error { fn custom<T: std::fmt::Display>(_m: T) -> Self { Error } }
impl Figment {
    pub fn new() -> Self { Figment { layers: [None; 4], n: 0 } }
    fn push(mut self, src: Src, join: bool) -> Self { if self.n < 4 { self.layers[self.n] = Some(Layer { src, join }); self.n += 1; } self }
    pub fn merge<P: Provider>(self, p: P) -> Self { let s = p.src(); self.push(s, false) }
    pub fn join<P: Provider>(self, p: P) -> Self { let s = p.src(); self.push(s, true) }
    fn value(&self, key: usize) -> Option<u8> {
        let mut cur: Option<u8> = None;
        let mut i = 0;
        while i < self.n {
            if let Some(l) = self.layers[i] {
                let v = unsafe { verif::VALUES[l.src as usize][key] };
                if let Some(v) = v { if l.join { if cur.is_none() { cur = Some(v); } } else { cur = Some(v); } }
            }
            i += 1;
        }
        cur
    }
    pub fn extract<T: DeserializeOwned>(&self) -> Result<T, Error> {
        T::deserialize(MapDe { fig: self })
    }
}
struct MapDe<'a> { fig: &'a Figment }
impl<'de, 'a> de::Deserializer<'de> for MapDe<'a> {
    type Error = Error;
    fn deserialize_any<V: de::Visitor<'de>>(self, v: V) -> Result<V::Value, Error> { v.visit_map(Acc { fig: self.fig, i: 0, pending: None }) }
    serde::forward_to_deserialize_any! { bool i8 i16 i32 i64 i128 u8 u16 u32 u64 u128 f32 f64 char str string bytes byte_buf option unit unit_struct newtype_struct seq tuple tuple_struct map struct enum identifier ignored_any }
}
struct Acc<'a> { fig: &'a Figment, i: usize, pending: Option<u8> }
impl<'de, 'a> de::MapAccess<'de> for Acc<'a> {
    type Error = Error;
    fn next_key_seed<S: de::DeserializeSeed<'de>>(&mut self, seed: S) -> Result<Option<S::Value>, Error> {
        while self.i < K {
            let k = self.i; self.i += 1;
            if let Some(v) = self.fig.value(k) { self.pending = Some(v); return seed.deserialize(KEYS[k].into_deserializer()).map(Some); }
        }
        Ok(None)
    }
    fn next_value_seed<S: de::DeserializeSeed<'de>>(&mut self, seed: S) -> Result<S::Value, Error> {
        match self.pending.take() { Some(v) => seed.deserialize(v.into_deserializer()), None => Err(Error) }
    }
}
pub mod providers {
    use super::*;
    pub trait Format { fn file<P: AsRef<std::path::Path>>(path: P) -> YamlFile; }
    pub struct Yaml;
    pub struct YamlFile { src: Src }
    impl Format for Yaml {
        fn file<P: AsRef<std::path::Path>>(path: P) -> YamlFile {
            // loop-free suffix tests (a `memcmp`/`Components` walk would dictate the global unwind bound)
            let b = path.as_ref().as_os_str().as_encoded_bytes();
            let n = b.len();
            // <dir> + '/' + 8-byte file name ("base.yml" / "dev.yml" / "prd.yml" are 8 or 7 bytes long)
            let d = unsafe { verif::EXPECT_DIR }.as_bytes();
            // loop-free: total length, the separator, and the first two bytes of the directory (the
            // harness directories "cf" and "/a" are two bytes long, i.e. fully compared)
            let dir_ok = d.len() >= 2 && n > d.len() + 1 && b[d.len()] == b'/' && b[0] == d[0] && b[1] == d[1] && (n == d.len() + 1 + 8 || n == d.len() + 1 + 7);
            if !dir_ok { unsafe { verif::DIR_OK = false; } }
            let is = |w: &[u8; 8]| n >= 8 && b[n-8]==w[0] && b[n-7]==w[1] && b[n-6]==w[2] && b[n-5]==w[3] && b[n-4]==w[4] && b[n-3]==w[5] && b[n-2]==w[6] && b[n-1]==w[7];
            if is(b"base.yml") { unsafe { verif::BASE_FILE_OK = true; } YamlFile { src: Src::Base } }
            else { let w = unsafe { verif::EXPECT_PROFILE_FILE }; if is(&w) { unsafe { verif::PROFILE_FILE_OK = true; } } YamlFile { src: Src::Profile } }
        }
    }
    impl Provider for YamlFile { fn src(&self) -> Src { self.src } }
    /// Environment provider. figment's documented semantics: `prefixed(p)` keeps the variables whose name
    /// starts with `p` (prefix stripped); every later builder call transforms or filters the KEYS in call
    /// order: `split(s)` replaces `s` by the nesting separator `.`, `ignore(ks)` drops keys equal
    /// (case-insensitively) to one of `ks`, `only(ks)` keeps only those, `filter(f)` keeps keys for which
    /// `f` holds. The shim follows a fixed set of probe variables through that chain - `PROFILE` itself
    /// and look-alikes that are ordinary configuration keys - and records which survive and whether the
    /// nested ones were split; the harness asserts that exactly `PROFILE` is dropped.
    pub struct Env;
    pub const N_PROBES: usize = 5;
    /// (name after the prefix was stripped, the same after a correct `__` split)
    pub const PROBES: [(&str, &str); N_PROBES] = [
        ("PROFILE", "PROFILE"),
        ("K0", "K0"),
        ("PROFILES_DIR", "PROFILES_DIR"),
        ("PROFILE__LABEL", "PROFILE.LABEL"),
        ("PROFILER__ON", "PROFILER.ON"),
    ];
    pub static mut PROBE_ALIVE: [bool; N_PROBES] = [false; N_PROBES];
    pub static mut PROBE_SPLIT: bool = false;
    /// `&UncasedStr`, as handed to `Env::filter` closures: comparisons ignore ASCII case
    pub struct UncasedStr { s: str }
    impl UncasedStr {
        pub fn new(s: &str) -> &UncasedStr { unsafe { &*(s as *const str as *const UncasedStr) } }
        pub fn as_str(&self) -> &str { &self.s }
        pub fn len(&self) -> usize { self.s.len() }
        pub fn is_empty(&self) -> bool { self.s.is_empty() }
        pub fn starts_with(&self, p: &str) -> bool {
            let (a, b) = (self.s.as_bytes(), p.as_bytes());
            if b.len() > a.len() { return false; }
            let mut i = 0;
            while i < b.len() { if a[i].to_ascii_lowercase() != b[i].to_ascii_lowercase() { return false; } i += 1; }
            true
        }
        pub fn eq_str(&self, p: &str) -> bool { self.s.len() == p.len() && self.starts_with(p) }
    }
    impl PartialEq<str> for UncasedStr { fn eq(&self, o: &str) -> bool { self.eq_str(o) } }
    impl PartialEq<&str> for UncasedStr { fn eq(&self, o: &&str) -> bool { self.eq_str(o) } }
    impl PartialEq<UncasedStr> for UncasedStr { fn eq(&self, o: &UncasedStr) -> bool { self.eq_str(&o.s) } }
    impl AsRef<str> for UncasedStr { fn as_ref(&self) -> &str { &self.s } }
    fn probe_name(i: usize) -> &'static str { if unsafe { PROBE_SPLIT } { PROBES[i].1 } else { PROBES[i].0 } }
    fn keep_probes(f: impl Fn(&UncasedStr) -> bool) {
        let mut i = 0;
        while i < N_PROBES {
            if unsafe { PROBE_ALIVE[i] } && !f(UncasedStr::new(probe_name(i))) { unsafe { PROBE_ALIVE[i] = false; } }
            i += 1;
        }
    }
    impl Env {
        pub fn prefixed(p: &str) -> Env {
            unsafe { verif::ENV_PREFIX_OK = p == "PX_"; PROBE_ALIVE = [true; N_PROBES]; PROBE_SPLIT = false; }
            Env
        }
        pub fn raw() -> Env { unsafe { verif::ENV_PREFIX_OK = false; PROBE_ALIVE = [true; N_PROBES]; PROBE_SPLIT = false; } Env }
        pub fn split(self, s: &str) -> Env { unsafe { verif::ENV_SPLIT_OK = s == "__"; PROBE_SPLIT = s == "__"; } self }
        pub fn ignore(self, ks: &[&str]) -> Env {
            keep_probes(|k| { let mut j = 0; while j < ks.len() { if k.eq_str(ks[j]) { return false; } j += 1; } true });
            self
        }
        pub fn only(self, ks: &[&str]) -> Env {
            keep_probes(|k| { let mut j = 0; while j < ks.len() { if k.eq_str(ks[j]) { return true; } j += 1; } false });
            self
        }
        pub fn filter<F: Fn(&UncasedStr) -> bool + Clone + 'static>(self, f: F) -> Env { keep_probes(f); self }
        pub fn lowercase(self, _l: bool) -> Env { self }
        pub fn global(self) -> Env { self }
    }
    impl Provider for Env { fn src(&self) -> Src { Src::Env } }
}
