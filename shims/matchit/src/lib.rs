//! Verification shim for `matchit` (C15, `PathParams::extract`): only `Params` / `ParamsIter`, i.e.
//! what a successful route match hands to the extractor. Contract kept (from the crate's docs): "A
//! list of parameters returned by a route match" - an ordered list of (key, value) pairs; `iter()`
//! yields them in match order, `get(key)` the value of the first pair with that key, `len()` their
//! number. The router itself (how a path is split into these pairs) is outside.
#[derive(Debug, PartialEq, Eq, Clone, Copy, Default)]
pub struct Params<'k, 'v> {
    items: [Option<(&'k str, &'v str)>; 3],
    n: usize,
}
impl<'k, 'v> Params<'k, 'v> {
    pub fn new() -> Self {
        Params { items: [None; 3], n: 0 }
    }
    pub fn len(&self) -> usize {
        self.n
    }
    pub fn is_empty(&self) -> bool {
        self.n == 0
    }
    pub fn get(&self, key: impl AsRef<str>) -> Option<&'v str> {
        let key = key.as_ref().as_bytes();
        let mut i = 0;
        while i < self.n {
            if let Some((k, v)) = self.items[i] {
                if k.as_bytes() == key {
                    return Some(v);
                }
            }
            i += 1;
        }
        None
    }
    pub fn iter(&self) -> ParamsIter<'_, 'k, 'v> {
        ParamsIter { params: self, next: 0 }
    }
    /// shim-only: what the router does on a match
    pub fn verif_push(&mut self, key: &'k str, value: &'v str) {
        assert!(self.n < 3, "verification shim: at most 3 path parameters");
        self.items[self.n] = Some((key, value));
        self.n += 1;
    }
}
pub struct ParamsIter<'ps, 'k, 'v> {
    params: &'ps Params<'k, 'v>,
    next: usize,
}
impl<'k, 'v> Iterator for ParamsIter<'_, 'k, 'v> {
    type Item = (&'k str, &'v str);
    fn next(&mut self) -> Option<Self::Item> {
        if self.next < self.params.n {
            let it = self.params.items[self.next];
            self.next += 1;
            it
        } else {
            None
        }
    }
    fn size_hint(&self) -> (usize, Option<usize>) {
        let r = self.params.n - self.next;
        (r, Some(r))
    }
}
impl ExactSizeIterator for ParamsIter<'_, '_, '_> {}
