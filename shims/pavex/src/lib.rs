//! Verification shim for the parts of `pavex` that `pavex_session` touches.
//! Cookie types are plain records (the real ones are `biscotti` builders with the same
//! setter names); `Processor` answers `will_encrypt` / `will_sign` from two flags.
pub use pavex_macros_shim::{config, methods, post_process, pre_process, request_scoped, singleton, transient, error_handler};
pub struct Response;
impl Response { pub fn internal_server_error() -> Self { Response } }
pub mod time {
    /// Verification shim for `jiff::Timestamp` / `SignedDuration`: a symbolic clock with a resolution of
    /// a quarter of a second (`TICKS_PER_SEC` ticks per second), so that code which rounds to whole
    /// seconds is distinguishable from code that does not. `now()` returns the instant the harness last
    /// set with `verif_set_now` (time is a harness-controlled variable: it stands still during one store
    /// operation and advances arbitrarily between two). Durations are floored to ticks (the harnesses
    /// only use multiples of 250 ms); the API subset and names are jiff's.
    pub const TICKS_PER_SEC: i64 = 4;
    const TICK_NANOS: u32 = 250_000_000;
    /// a `std::time::Duration` in ticks (no division: `Duration` keeps seconds and nanoseconds apart)
    pub fn verif_ticks(d: std::time::Duration) -> i64 {
        let n = d.subsec_nanos();
        let q = if n < TICK_NANOS { 0 } else if n < 2 * TICK_NANOS { 1 } else if n < 3 * TICK_NANOS { 2 } else { 3 };
        (d.as_secs() as i64) * TICKS_PER_SEC + q
    }
    /// ticks -> `Duration` (non-negative ticks)
    pub fn verif_duration(t: i64) -> std::time::Duration {
        let t = t as u64;
        std::time::Duration::new(t >> 2, ((t & 3) as u32) * TICK_NANOS)
    }
    #[derive(Clone, Copy, Debug, PartialEq, Eq, PartialOrd, Ord)]
    pub struct Timestamp(pub i64);
    static mut NOW: i64 = 0;
    /// set the clock (in ticks)
    pub fn verif_set_now(t: i64) { unsafe { NOW = t } }
    impl Timestamp {
        pub const UNIX_EPOCH: Timestamp = Timestamp(0);
        pub const MAX: Timestamp = Timestamp(i64::MAX);
        pub const MIN: Timestamp = Timestamp(i64::MIN);
        pub fn now() -> Timestamp { Timestamp(unsafe { NOW }) }
        /// whole seconds since the epoch (rounds towards negative infinity for the instants used here, which are >= 0)
        pub fn as_second(&self) -> i64 { self.0 >> 2 }
        pub fn as_millisecond(&self) -> i64 { self.0 * 250 }
        pub fn subsec_millisecond(&self) -> i32 { ((self.0 & 3) * 250) as i32 }
        pub fn subsec_nanosecond(&self) -> i32 { ((self.0 & 3) as i32) * TICK_NANOS as i32 }
        pub fn from_second(s: i64) -> Result<Timestamp, ()> { s.checked_mul(TICKS_PER_SEC).map(Timestamp).ok_or(()) }
        pub fn from_millisecond(ms: i64) -> Result<Timestamp, ()> { Ok(Timestamp(ms / 250)) }
        // jiff: `checked_*` / `saturating_*` take anything that converts into `TimestampArithmetic` (a std
        // `Duration`, a `SignedDuration`, a `Span`) and return a `Result` (`saturating_*` too: a `Span` with
        // calendar units is an error there)
        pub fn checked_add<A: Into<TimestampArithmetic>>(self, d: A) -> Result<Timestamp, Error> { self.0.checked_add(d.into().0).map(Timestamp).ok_or(Error) }
        pub fn checked_sub<A: Into<TimestampArithmetic>>(self, d: A) -> Result<Timestamp, Error> { self.0.checked_sub(d.into().0).map(Timestamp).ok_or(Error) }
        pub fn saturating_add<A: Into<TimestampArithmetic>>(self, d: A) -> Result<Timestamp, Error> { Ok(Timestamp(self.0.saturating_add(d.into().0))) }
        pub fn saturating_sub<A: Into<TimestampArithmetic>>(self, d: A) -> Result<Timestamp, Error> { Ok(Timestamp(self.0.saturating_sub(d.into().0))) }
        pub fn duration_since(self, o: Timestamp) -> SignedDuration { SignedDuration(self.0 - o.0) }
        pub fn duration_until(self, o: Timestamp) -> SignedDuration { SignedDuration(o.0 - self.0) }
    }
    /// opaque jiff error
    #[derive(Debug, Clone, Copy)]
    pub struct Error;
    impl std::fmt::Display for Error {
        fn fmt(&self, f: &mut std::fmt::Formatter<'_>) -> std::fmt::Result { f.write_str("jiff error") }
    }
    impl std::error::Error for Error {}
    /// a span of time handed to timestamp arithmetic, in ticks
    #[derive(Clone, Copy)]
    pub struct TimestampArithmetic(i64);
    impl From<std::time::Duration> for TimestampArithmetic { fn from(d: std::time::Duration) -> Self { TimestampArithmetic(verif_ticks(d)) } }
    impl From<SignedDuration> for TimestampArithmetic { fn from(d: SignedDuration) -> Self { TimestampArithmetic(d.0) } }
    impl std::ops::Add<SignedDuration> for Timestamp {
        type Output = Timestamp;
        fn add(self, d: SignedDuration) -> Timestamp { Timestamp(self.0 + d.0) }
    }
    impl std::ops::Sub<SignedDuration> for Timestamp {
        type Output = Timestamp;
        fn sub(self, d: SignedDuration) -> Timestamp { Timestamp(self.0 - d.0) }
    }
    impl std::ops::Sub<std::time::Duration> for Timestamp {
        type Output = Timestamp;
        fn sub(self, d: std::time::Duration) -> Timestamp { Timestamp(self.0 - verif_ticks(d)) }
    }
    impl std::ops::AddAssign<std::time::Duration> for Timestamp {
        fn add_assign(&mut self, d: std::time::Duration) { self.0 += verif_ticks(d) }
    }
    impl std::ops::Add<std::time::Duration> for Timestamp {
        type Output = Timestamp;
        fn add(self, d: std::time::Duration) -> Timestamp { Timestamp(self.0 + verif_ticks(d)) }
    }
    impl std::ops::Sub<Timestamp> for Timestamp {
        type Output = SignedDuration;
        fn sub(self, o: Timestamp) -> SignedDuration { SignedDuration(self.0 - o.0) }
    }
    impl TryFrom<SignedDuration> for std::time::Duration {
        type Error = ();
        fn try_from(d: SignedDuration) -> Result<Self, ()> { if d.0 < 0 { Err(()) } else { Ok(verif_duration(d.0)) } }
    }
    /// a signed span of time, in ticks
    #[derive(Clone, Copy, Debug, PartialEq, Eq, PartialOrd, Ord)]
    pub struct SignedDuration(pub i64);
    impl SignedDuration {
        pub const MAX: SignedDuration = SignedDuration(i64::MAX);
        pub const ZERO: SignedDuration = SignedDuration(0);
        pub fn is_negative(&self) -> bool { self.0 < 0 }
        pub fn is_zero(&self) -> bool { self.0 == 0 }
        pub fn is_positive(&self) -> bool { self.0 > 0 }
        pub fn unsigned_abs(&self) -> std::time::Duration { verif_duration(self.0.abs()) }
        pub fn from_secs(s: i64) -> SignedDuration { SignedDuration(s * TICKS_PER_SEC) }
        pub fn from_millis(ms: i64) -> SignedDuration { SignedDuration(ms / 250) }
        pub fn from_nanos(ns: i64) -> SignedDuration { SignedDuration(ns / 250_000_000) }
        pub fn as_millis(&self) -> i128 { self.0 as i128 * 250 }
        pub fn as_nanos(&self) -> i128 { self.0 as i128 * 250_000_000 }
        pub fn checked_add(self, o: SignedDuration) -> Option<SignedDuration> { self.0.checked_add(o.0).map(SignedDuration) }
        pub fn saturating_add(self, o: SignedDuration) -> SignedDuration { SignedDuration(self.0.saturating_add(o.0)) }
        pub fn as_secs(&self) -> i64 { self.0 >> 2 }
    }
    impl TryFrom<std::time::Duration> for SignedDuration { type Error = (); fn try_from(d: std::time::Duration) -> Result<Self, ()> { let s = d.as_secs(); if s > (i64::MAX / TICKS_PER_SEC) as u64 { Err(()) } else { Ok(SignedDuration(verif_ticks(d))) } } }
    #[derive(Clone, Copy, Debug, serde::Deserialize)]
    pub struct Span(pub i64);
    impl Span { pub fn is_negative(&self) -> bool { self.0 < 0 } pub fn is_zero(&self) -> bool { self.0 == 0 } }
    impl TryFrom<Span> for std::time::Duration { type Error = &'static str; fn try_from(s: Span) -> Result<Self, Self::Error> { if s.0 < 0 { Err("negative") } else { Ok(std::time::Duration::from_secs(s.0 as u64)) } } }
}
pub mod cookie {
    use std::borrow::Cow;
    #[derive(Clone, Copy, Debug, PartialEq, Eq, serde::Serialize, serde::Deserialize)]
    pub enum SameSite { Strict, Lax, None }
    #[derive(Clone, Debug, PartialEq, Eq)]
    pub struct ResponseCookie<'c> {
        pub name: Cow<'c, str>, pub value: Cow<'c, str>, pub domain: Option<Cow<'c, str>>, pub path: Option<Cow<'c, str>>,
        pub same_site: Option<SameSite>, pub secure: Option<bool>, pub http_only: Option<bool>, pub max_age: Option<super::time::SignedDuration>, pub removal: bool,
    }
    impl<'c> ResponseCookie<'c> {
        pub fn new<N: Into<Cow<'c, str>>, V: Into<Cow<'c, str>>>(name: N, value: V) -> Self { Self { name: name.into(), value: value.into(), domain: None, path: None, same_site: None, secure: None, http_only: None, max_age: None, removal: false } }
        pub fn name(&self) -> &str { &self.name }
        // getters of the real type (biscotti::ResponseCookie), so that first-party code that reads a
        // cookie back keeps compiling against the shim
        pub fn value(&self) -> &str { &self.value }
        pub fn name_value(&self) -> (&str, &str) { (&self.name, &self.value) }
        pub fn domain(&self) -> Option<&str> { self.domain.as_deref() }
        pub fn path(&self) -> Option<&str> { self.path.as_deref() }
        pub fn secure(&self) -> Option<bool> { self.secure }
        pub fn http_only(&self) -> Option<bool> { self.http_only }
        pub fn same_site(&self) -> Option<SameSite> { self.same_site }
        pub fn max_age(&self) -> Option<super::time::SignedDuration> { self.max_age }
        pub fn set_value<V: Into<Cow<'c, str>>>(mut self, v: V) -> Self { self.value = v.into(); self }
        pub fn set_name<N: Into<Cow<'c, str>>>(mut self, n: N) -> Self { self.name = n.into(); self }
        pub fn unset_domain(mut self) -> Self { self.domain = None; self }
        pub fn unset_path(mut self) -> Self { self.path = None; self }
        pub fn into_owned(self) -> ResponseCookie<'static> {
            ResponseCookie { name: Cow::Owned(self.name.into_owned()), value: Cow::Owned(self.value.into_owned()), domain: self.domain.map(|d| Cow::Owned(d.into_owned())), path: self.path.map(|d| Cow::Owned(d.into_owned())), same_site: self.same_site, secure: self.secure, http_only: self.http_only, max_age: self.max_age, removal: self.removal }
        }
        pub fn set_domain<D: Into<Cow<'c, str>>>(mut self, d: D) -> Self { self.domain = Some(d.into()); self }
        pub fn set_path<D: Into<Cow<'c, str>>>(mut self, d: D) -> Self { self.path = Some(d.into()); self }
        pub fn set_same_site<S: Into<Option<SameSite>>>(mut self, s: S) -> Self { self.same_site = s.into(); self }
        pub fn set_secure<S: Into<Option<bool>>>(mut self, s: S) -> Self { self.secure = s.into(); self }
        pub fn set_http_only<S: Into<Option<bool>>>(mut self, s: S) -> Self { self.http_only = s.into(); self }
        pub fn set_max_age<S: Into<Option<super::time::SignedDuration>>>(mut self, s: S) -> Self { self.max_age = s.into(); self }
    }
    #[derive(Clone, Debug)]
    pub struct RemovalCookie<'c> { name: Cow<'c, str>, domain: Option<Cow<'c, str>>, path: Option<Cow<'c, str>> }
    impl<'c> RemovalCookie<'c> {
        pub fn new<N: Into<Cow<'c, str>>>(name: N) -> Self { Self { name: name.into(), domain: None, path: None } }
        pub fn set_domain<D: Into<Cow<'c, str>>>(mut self, d: D) -> Self { self.domain = Some(d.into()); self }
        pub fn set_path<D: Into<Cow<'c, str>>>(mut self, d: D) -> Self { self.path = Some(d.into()); self }
    }
    impl<'c> From<RemovalCookie<'c>> for ResponseCookie<'c> { fn from(r: RemovalCookie<'c>) -> Self { let mut c = ResponseCookie::new(r.name, ""); c.domain = r.domain; c.path = r.path; c.removal = true; c } }
    pub struct RequestCookie<'c> { value: &'c str }
    impl<'c> RequestCookie<'c> { pub fn value(&self) -> &'c str { self.value } }
    pub struct RequestCookies<'c> { pub session: Option<&'c str> }
    impl<'c> RequestCookies<'c> { pub fn get(&self, _name: &str) -> Option<RequestCookie<'c>> { self.session.map(|v| RequestCookie { value: v }) } }
    pub struct Processor { pub encrypts: bool, pub signs: bool }
    impl Processor { pub fn will_encrypt(&self, _n: &str) -> bool { self.encrypts } pub fn will_sign(&self, _n: &str) -> bool { self.signs && !self.encrypts } }
    #[derive(Default)]
    pub struct ResponseCookies { pub inserted: Option<ResponseCookie<'static>>, pub n: usize }
    impl ResponseCookies {
        pub fn new() -> Self { Self::default() }
        pub fn insert(&mut self, c: ResponseCookie<'static>) { self.inserted = Some(c); self.n += 1; }
        pub fn get(&self, name: &str) -> Option<&ResponseCookie<'static>> { match &self.inserted { Some(c) if &*c.name == name => Some(c), _ => None } }
    }
}
