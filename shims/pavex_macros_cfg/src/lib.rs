//! Verification shim: `#[derive(ConfigProfile)]` is not exercised by the C18 harness (profiles are
//! written out by hand there); the derive only has to exist for `pub use pavex_macros::ConfigProfile`.
use proc_macro::TokenStream;
#[proc_macro_derive(ConfigProfile, attributes(px))]
pub fn config_profile(_i: TokenStream) -> TokenStream {
    TokenStream::new()
}
