//! Verification shim: Pavex's registration attributes carry no run-time behaviour.
//! `methods` strips the inner helper attributes, every other attribute is the identity.
use proc_macro::{TokenStream, TokenTree, Group};
const HELPERS: &[&str] = &["request_scoped","transient","singleton","error_handler","constructor","pre_process","post_process","wrap","error_observer","fallback","route","get","post","put","delete","patch","config","prebuilt"];
fn strip(ts: TokenStream) -> TokenStream {
    let mut out: Vec<TokenTree> = Vec::new();
    let mut it = ts.into_iter().peekable();
    while let Some(tt) = it.next() {
        match &tt {
            TokenTree::Punct(p) if p.as_char() == '#' => {
                if let Some(TokenTree::Group(g)) = it.peek() {
                    let first = g.stream().into_iter().next();
                    if let Some(TokenTree::Ident(id)) = first {
                        if HELPERS.contains(&id.to_string().as_str()) { it.next(); continue; }
                    }
                }
                out.push(tt);
            }
            TokenTree::Group(g) => {
                let mut ng = Group::new(g.delimiter(), strip(g.stream()));
                ng.set_span(g.span());
                out.push(TokenTree::Group(ng));
            }
            _ => out.push(tt),
        }
    }
    out.into_iter().collect()
}
#[proc_macro_attribute] pub fn methods(_a: TokenStream, item: TokenStream) -> TokenStream { strip(item) }
#[proc_macro_attribute] pub fn config(_a: TokenStream, item: TokenStream) -> TokenStream { item }
fn with_id_const(item: TokenStream) -> TokenStream {
    // The real macro also defines an `UPPER_SNAKE_CASE` constant identifying the component.
    let mut name = None;
    let mut prev_fn = false;
    for tt in item.clone() {
        if let TokenTree::Ident(id) = &tt {
            if prev_fn { name = Some(id.to_string()); break; }
            prev_fn = id.to_string() == "fn";
        } else { prev_fn = false; }
    }
    let mut out = item;
    if let Some(n) = name {
        let c: TokenStream = format!("#[allow(dead_code)] pub const {}: () = ();", n.to_uppercase()).parse().unwrap();
        out.extend(c);
    }
    out
}
#[proc_macro_attribute] pub fn post_process(_a: TokenStream, item: TokenStream) -> TokenStream { with_id_const(item) }
#[proc_macro_attribute] pub fn pre_process(_a: TokenStream, item: TokenStream) -> TokenStream { with_id_const(item) }
#[proc_macro_attribute] pub fn request_scoped(_a: TokenStream, item: TokenStream) -> TokenStream { item }
#[proc_macro_attribute] pub fn singleton(_a: TokenStream, item: TokenStream) -> TokenStream { item }
#[proc_macro_attribute] pub fn transient(_a: TokenStream, item: TokenStream) -> TokenStream { item }
#[proc_macro_attribute] pub fn error_handler(_a: TokenStream, item: TokenStream) -> TokenStream { item }
#[proc_macro_attribute] pub fn fallback(_a: TokenStream, item: TokenStream) -> TokenStream { with_id_const(item) }
