pub mod fields {
    pub const ERROR_MESSAGE: &str = "error.message";
    pub const ERROR_DETAILS: &str = "error.details";
    pub fn error_message<E>(_e: &E) {}
    pub fn error_details<E>(_e: &E) {}
}
