//! Verification shim for `serde_json`.
//!
//! * `Value` is a heap-free scalar: `Null | Bool | Number(i64)` (nested values are outside the claim).
//! * The "wire" is a token tape instead of JSON text: `to_string` records every call the *real*
//!   (derived) `Serialize` impl makes - struct field names included - and `from_str` replays the
//!   tape through the *real* (derived) `Deserialize` impl. What is thereby checked is the pair of
//!   derives (field names, `skip_serializing_if`, `default`, `transparent`), not JSON syntax.
//!   The returned `String` is empty; the tape is the most recent one written (`verif::TAPE`), which
//!   is what a client that presents the cookie unmodified sends back.
use serde::de::{self, DeserializeSeed, MapAccess, Visitor};
use serde::ser::{self, Serialize};

#[derive(Clone, Copy, Debug, PartialEq, Eq)]
pub enum Value {
    Null,
    Bool(bool),
    Number(i64),
}
// the accessors of the real `serde_json::Value` that make sense for scalars (so that first-party
// code that starts inspecting a value keeps compiling against the shim)
impl Value {
    pub fn is_null(&self) -> bool { matches!(self, Value::Null) }
    pub fn is_boolean(&self) -> bool { matches!(self, Value::Bool(_)) }
    pub fn is_number(&self) -> bool { matches!(self, Value::Number(_)) }
    pub fn is_string(&self) -> bool { false }
    pub fn is_object(&self) -> bool { false }
    pub fn is_array(&self) -> bool { false }
    pub fn as_bool(&self) -> Option<bool> { if let Value::Bool(b) = self { Some(*b) } else { None } }
    pub fn as_i64(&self) -> Option<i64> { if let Value::Number(n) = self { Some(*n) } else { None } }
    pub fn as_u64(&self) -> Option<u64> { if let Value::Number(n) = self { if *n >= 0 { Some(*n as u64) } else { None } } else { None } }
    pub fn as_str(&self) -> Option<&str> { None }
    pub fn as_null(&self) -> Option<()> { if self.is_null() { Some(()) } else { None } }
    pub fn take(&mut self) -> Value { std::mem::replace(self, Value::Null) }
}
impl From<bool> for Value { fn from(b: bool) -> Self { Value::Bool(b) } }
impl From<i64> for Value { fn from(n: i64) -> Self { Value::Number(n) } }
impl From<()> for Value { fn from(_: ()) -> Self { Value::Null } }

impl Default for Value {
    fn default() -> Self {
        Value::Null
    }
}
impl Serialize for Value {
    fn serialize<S: ser::Serializer>(&self, s: S) -> std::result::Result<S::Ok, S::Error> {
        match self {
            Value::Null => s.serialize_unit(),
            Value::Bool(b) => s.serialize_bool(*b),
            Value::Number(n) => s.serialize_i64(*n),
        }
    }
}
impl<'de> serde::Deserialize<'de> for Value {
    fn deserialize<D: serde::Deserializer<'de>>(d: D) -> std::result::Result<Self, D::Error> {
        struct V;
        impl<'de> Visitor<'de> for V {
            type Value = Value;
            fn expecting(&self, f: &mut std::fmt::Formatter) -> std::fmt::Result {
                f.write_str("a scalar")
            }
            fn visit_unit<E>(self) -> std::result::Result<Value, E> {
                Ok(Value::Null)
            }
            fn visit_bool<E>(self, b: bool) -> std::result::Result<Value, E> {
                Ok(Value::Bool(b))
            }
            fn visit_i64<E>(self, n: i64) -> std::result::Result<Value, E> {
                Ok(Value::Number(n))
            }
        }
        d.deserialize_any(V)
    }
}

#[derive(Debug)]
pub struct Error {
    pub code: u8,
}
const ERR: Error = Error { code: 0 };
impl std::fmt::Display for Error {
    fn fmt(&self, f: &mut std::fmt::Formatter<'_>) -> std::fmt::Result {
        f.write_str("json error")
    }
}
impl std::error::Error for Error {}
impl ser::Error for Error {
    fn custom<T: std::fmt::Display>(_m: T) -> Self {
        ERR
    }
}
impl de::Error for Error {
    fn custom<T: std::fmt::Display>(_m: T) -> Self {
        ERR
    }
}
pub type Result<T> = std::result::Result<T, Error>;

/// Typed (de)serialisation of single values is outside the claim (raw API only).
pub fn to_value<T: Serialize>(_t: T) -> Result<Value> {
    Err(ERR)
}
pub fn from_value<T: de::DeserializeOwned>(_v: Value) -> Result<T> {
    Err(ERR)
}

pub mod verif {
    use super::Value;
    pub const MAXT: usize = 12;
    #[derive(Clone, Copy, Debug, PartialEq, Eq)]
    pub enum Tok {
        End,
        StructStart,
        Field(&'static str),
        StructEnd,
        U128(u128),
        MapStart,
        /// a map key: up to 2 bytes + real length
        Key([u8; 2], usize),
        Scalar(Value),
        MapEnd,
    }
    #[derive(Clone, Copy)]
    pub struct Tape {
        pub toks: [Tok; MAXT],
        pub n: usize,
        pub pos: usize,
        pub overflow: bool,
    }
    pub const EMPTY_TAPE: Tape = Tape { toks: [Tok::End; MAXT], n: 0, pos: 0, overflow: false };
    pub static mut TAPE: Tape = EMPTY_TAPE;
    pub fn tape() -> Tape {
        unsafe { TAPE }
    }
    pub fn set_tape(t: Tape) {
        unsafe { TAPE = t }
    }
    pub(crate) fn push(t: Tok) {
        unsafe {
            if TAPE.n >= MAXT {
                TAPE.overflow = true;
            } else {
                let i = TAPE.n;
                TAPE.toks[i] = t;
                TAPE.n = i + 1;
            }
        }
    }
    pub(crate) fn peek() -> Tok {
        unsafe { if TAPE.pos < TAPE.n { TAPE.toks[TAPE.pos] } else { Tok::End } }
    }
    pub(crate) fn next() -> Tok {
        unsafe {
            if TAPE.pos < TAPE.n {
                let t = TAPE.toks[TAPE.pos];
                TAPE.pos += 1;
                t
            } else {
                Tok::End
            }
        }
    }
}
use verif::Tok;

struct Rec {
    pending_key: bool,
}
macro_rules! unsup { ($($f:ident($($t:ty),*);)*) => { $(fn $f(self $(, _: $t)*) -> Result<()> { Err(ERR) })* } }
impl<'a> ser::Serializer for &'a mut Rec {
    type Ok = ();
    type Error = Error;
    type SerializeSeq = ser::Impossible<(), Error>;
    type SerializeTuple = ser::Impossible<(), Error>;
    type SerializeTupleStruct = ser::Impossible<(), Error>;
    type SerializeTupleVariant = ser::Impossible<(), Error>;
    type SerializeMap = Self;
    type SerializeStruct = Self;
    type SerializeStructVariant = ser::Impossible<(), Error>;
    fn serialize_bool(self, v: bool) -> Result<()> {
        verif::push(Tok::Scalar(Value::Bool(v)));
        Ok(())
    }
    fn serialize_i64(self, v: i64) -> Result<()> {
        verif::push(Tok::Scalar(Value::Number(v)));
        Ok(())
    }
    fn serialize_unit(self) -> Result<()> {
        verif::push(Tok::Scalar(Value::Null));
        Ok(())
    }
    fn serialize_u128(self, v: u128) -> Result<()> {
        verif::push(Tok::U128(v));
        Ok(())
    }
    fn serialize_str(self, v: &str) -> Result<()> {
        if !self.pending_key {
            return Err(ERR);
        }
        let b = v.as_bytes();
        let mut k = [0u8; 2];
        if b.len() > 0 {
            k[0] = b[0];
        }
        if b.len() > 1 {
            k[1] = b[1];
        }
        verif::push(Tok::Key(k, b.len()));
        Ok(())
    }
    unsup! { serialize_i8(i8); serialize_i16(i16); serialize_i32(i32); serialize_u8(u8); serialize_u16(u16); serialize_u32(u32); serialize_u64(u64); serialize_f32(f32); serialize_f64(f64); serialize_char(char); serialize_bytes(&[u8]); serialize_none(); serialize_unit_struct(&'static str); }
    fn serialize_some<T: ?Sized + Serialize>(self, v: &T) -> Result<()> {
        v.serialize(self)
    }
    fn serialize_unit_variant(self, _: &'static str, _: u32, _: &'static str) -> Result<()> {
        Err(ERR)
    }
    fn serialize_newtype_struct<T: ?Sized + Serialize>(self, _: &'static str, v: &T) -> Result<()> {
        v.serialize(self)
    }
    fn serialize_newtype_variant<T: ?Sized + Serialize>(self, _: &'static str, _: u32, _: &'static str, _: &T) -> Result<()> {
        Err(ERR)
    }
    fn serialize_seq(self, _: Option<usize>) -> Result<Self::SerializeSeq> {
        Err(ERR)
    }
    fn serialize_tuple(self, _: usize) -> Result<Self::SerializeTuple> {
        Err(ERR)
    }
    fn serialize_tuple_struct(self, _: &'static str, _: usize) -> Result<Self::SerializeTupleStruct> {
        Err(ERR)
    }
    fn serialize_tuple_variant(self, _: &'static str, _: u32, _: &'static str, _: usize) -> Result<Self::SerializeTupleVariant> {
        Err(ERR)
    }
    fn serialize_map(self, _: Option<usize>) -> Result<Self::SerializeMap> {
        verif::push(Tok::MapStart);
        Ok(self)
    }
    fn serialize_struct(self, _: &'static str, _: usize) -> Result<Self::SerializeStruct> {
        verif::push(Tok::StructStart);
        Ok(self)
    }
    fn serialize_struct_variant(self, _: &'static str, _: u32, _: &'static str, _: usize) -> Result<Self::SerializeStructVariant> {
        Err(ERR)
    }
    fn is_human_readable(&self) -> bool {
        true
    }
}
impl<'a> ser::SerializeMap for &'a mut Rec {
    type Ok = ();
    type Error = Error;
    fn serialize_key<T: ?Sized + Serialize>(&mut self, k: &T) -> Result<()> {
        self.pending_key = true;
        let r = k.serialize(&mut **self);
        self.pending_key = false;
        r
    }
    fn serialize_value<T: ?Sized + Serialize>(&mut self, v: &T) -> Result<()> {
        v.serialize(&mut **self)
    }
    fn end(self) -> Result<()> {
        verif::push(Tok::MapEnd);
        Ok(())
    }
}
impl<'a> ser::SerializeStruct for &'a mut Rec {
    type Ok = ();
    type Error = Error;
    fn serialize_field<T: ?Sized + Serialize>(&mut self, k: &'static str, v: &T) -> Result<()> {
        verif::push(Tok::Field(k));
        v.serialize(&mut **self)
    }
    fn end(self) -> Result<()> {
        verif::push(Tok::StructEnd);
        Ok(())
    }
}

pub fn to_string<T: ?Sized + Serialize>(v: &T) -> Result<String> {
    verif::set_tape(verif::EMPTY_TAPE);
    let mut r = Rec { pending_key: false };
    v.serialize(&mut r)?;
    if verif::tape().overflow {
        return Err(ERR);
    }
    Ok(String::new())
}

// ------------------------------------------------------------------------------------------------
// Replay
// ------------------------------------------------------------------------------------------------
struct Play;
struct StructAcc;
struct MapAcc;
struct FieldName(&'static str);
struct KeyBytes([u8; 2], usize);

static KEYS: [&str; 4] = ["a", "b", "c", "d"];

macro_rules! fwd_any { ($($f:ident)*) => { $(fn $f<V: Visitor<'de>>(self, v: V) -> Result<V::Value> { self.deserialize_any(v) })* } }

impl<'de> de::Deserializer<'de> for Play {
    type Error = Error;
    // Strictly typed replay: every request must find the token kind it asks for. (A permissive
    // `deserialize_any` dispatch lets CBMC explore every visitor x token combination, including
    // serde's default `visit_u128`, which formats the number into its error message.)
    fn deserialize_any<V: Visitor<'de>>(self, v: V) -> Result<V::Value> {
        match verif::next() {
            Tok::Scalar(Value::Null) => v.visit_unit(),
            Tok::Scalar(Value::Bool(b)) => v.visit_bool(b),
            Tok::Scalar(Value::Number(n)) => v.visit_i64(n),
            _ => Err(ERR),
        }
    }
    fn deserialize_u128<V: Visitor<'de>>(self, v: V) -> Result<V::Value> {
        match verif::next() {
            Tok::U128(x) => v.visit_u128(x),
            _ => Err(ERR),
        }
    }
    fn deserialize_map<V: Visitor<'de>>(self, v: V) -> Result<V::Value> {
        match verif::next() {
            Tok::MapStart => v.visit_map(MapAcc),
            _ => Err(ERR),
        }
    }
    fn deserialize_struct<V: Visitor<'de>>(self, _n: &'static str, _f: &'static [&'static str], v: V) -> Result<V::Value> {
        match verif::next() {
            Tok::StructStart => v.visit_map(StructAcc),
            _ => Err(ERR),
        }
    }
    fn deserialize_option<V: Visitor<'de>>(self, v: V) -> Result<V::Value> {
        v.visit_some(self)
    }
    fn deserialize_newtype_struct<V: Visitor<'de>>(self, _n: &'static str, v: V) -> Result<V::Value> {
        v.visit_newtype_struct(self)
    }
    /// Unknown struct fields are an error in this format (the tape only ever holds what the real
    /// `Serialize` derive wrote); this also keeps serde's recursive `IgnoredAny` visitor out of the model.
    fn deserialize_ignored_any<V: Visitor<'de>>(self, _v: V) -> Result<V::Value> {
        Err(ERR)
    }
    fn deserialize_unit_struct<V: Visitor<'de>>(self, _n: &'static str, _v: V) -> Result<V::Value> {
        Err(ERR)
    }
    fn deserialize_tuple_struct<V: Visitor<'de>>(self, _n: &'static str, _l: usize, _v: V) -> Result<V::Value> {
        Err(ERR)
    }
    fn deserialize_tuple<V: Visitor<'de>>(self, _l: usize, _v: V) -> Result<V::Value> {
        Err(ERR)
    }
    fn deserialize_enum<V: Visitor<'de>>(self, _n: &'static str, _vs: &'static [&'static str], _v: V) -> Result<V::Value> {
        Err(ERR)
    }
    fwd_any! { deserialize_bool deserialize_i8 deserialize_i16 deserialize_i32 deserialize_i64 deserialize_i128 deserialize_u8 deserialize_u16 deserialize_u32 deserialize_u64 deserialize_f32 deserialize_f64 deserialize_char deserialize_str deserialize_string deserialize_bytes deserialize_byte_buf deserialize_unit deserialize_seq deserialize_identifier }
    fn is_human_readable(&self) -> bool {
        true
    }
}
impl<'de> MapAccess<'de> for StructAcc {
    type Error = Error;
    fn next_key_seed<K: DeserializeSeed<'de>>(&mut self, seed: K) -> Result<Option<K::Value>> {
        match verif::next() {
            Tok::Field(name) => seed.deserialize(FieldName(name)).map(Some),
            Tok::StructEnd => Ok(None),
            _ => Err(ERR),
        }
    }
    fn next_value_seed<V: DeserializeSeed<'de>>(&mut self, seed: V) -> Result<V::Value> {
        seed.deserialize(Play)
    }
}
impl<'de> MapAccess<'de> for MapAcc {
    type Error = Error;
    fn next_key_seed<K: DeserializeSeed<'de>>(&mut self, seed: K) -> Result<Option<K::Value>> {
        match verif::next() {
            Tok::Key(b, l) => seed.deserialize(KeyBytes(b, l)).map(Some),
            Tok::MapEnd => Ok(None),
            _ => Err(ERR),
        }
    }
    fn next_value_seed<V: DeserializeSeed<'de>>(&mut self, seed: V) -> Result<V::Value> {
        seed.deserialize(Play)
    }
}
macro_rules! only_str { ($t:ty, $body:expr) => {
    impl<'de> de::Deserializer<'de> for $t {
        type Error = Error;
        fn deserialize_any<V: Visitor<'de>>(self, v: V) -> Result<V::Value> { let f: fn($t, V) -> Result<V::Value> = $body; f(self, v) }
        serde::forward_to_deserialize_any! { bool i8 i16 i32 i64 i128 u8 u16 u32 u64 u128 f32 f64 char str string bytes byte_buf option unit unit_struct newtype_struct seq tuple tuple_struct map struct enum identifier ignored_any }
    }
} }
only_str!(FieldName, |s, v| v.visit_borrowed_str(s.0));
// Map keys come back as one of the static one-letter strings of the bound ("a".."d"): the harness
// keys are one byte long; anything else is a decoding error. Borrowing a static str keeps the
// owned-`String` allocation path of `Cow<'static, str>` out of the replay.
only_str!(KeyBytes, |s, v| {
    if s.1 != 1 {
        return Err(ERR);
    }
    let i = s.0[0].wrapping_sub(b'a') as usize;
    if i < 4 { v.visit_str(KEYS[i]) } else { Err(ERR) }
});

pub fn from_str<'a, T: serde::Deserialize<'a>>(_s: &'a str) -> Result<T> {
    unsafe {
        verif::TAPE.pos = 0;
    }
    if verif::tape().n == 0 {
        return Err(ERR);
    }
    let r = T::deserialize(Play)?;
    if verif::peek() != Tok::End {
        return Err(ERR);
    }
    Ok(r)
}
