//! Verification shim for `serde_json`: a heap-free `Value` and a token-tape "wire".
//! `to_string` records what the real `Serialize` impl emits; `from_str` replays it.
use serde::ser::{self, Serialize};

#[derive(Clone, Copy, Debug, PartialEq, Eq)]
pub enum Value { Null, Bool(bool), Number(i64) }
impl Default for Value { fn default() -> Self { Value::Null } }
impl Serialize for Value {
    fn serialize<S: ser::Serializer>(&self, s: S) -> std::result::Result<S::Ok, S::Error> {
        match self { Value::Null => s.serialize_unit(), Value::Bool(b) => s.serialize_bool(*b), Value::Number(n) => s.serialize_i64(*n) }
    }
}
impl<'de> serde::Deserialize<'de> for Value {
    fn deserialize<D: serde::Deserializer<'de>>(_d: D) -> std::result::Result<Self, D::Error> { Err(serde::de::Error::custom("unsupported")) }
}
#[derive(Debug)]
pub struct Error { pub code: u8 }
const ERR: Error = Error { code: 0 };
impl std::fmt::Display for Error { fn fmt(&self, f: &mut std::fmt::Formatter<'_>) -> std::fmt::Result { f.write_str("json error") } }
impl std::error::Error for Error {}
impl ser::Error for Error { fn custom<T: std::fmt::Display>(_m: T) -> Self { ERR } }
impl serde::de::Error for Error { fn custom<T: std::fmt::Display>(_m: T) -> Self { ERR } }
pub type Result<T> = std::result::Result<T, Error>;

pub fn to_value<T: Serialize>(_t: T) -> Result<Value> { Err(ERR) }
pub fn from_value<T: serde::de::DeserializeOwned>(_v: Value) -> Result<T> { Err(ERR) }

pub mod verif {
    use super::Value;
    pub const MAXE: usize = 3;
    #[derive(Clone, Copy, Debug)]
    pub struct Wire { pub id: Option<u128>, pub n: usize, pub keys: [[u8; 2]; MAXE], pub klen: [usize; MAXE], pub vals: [Value; MAXE] }
    pub static mut LAST: Wire = Wire { id: None, n: 0, keys: [[0; 2]; MAXE], klen: [0; MAXE], vals: [Value::Null; MAXE] };
    pub fn last() -> Wire { unsafe { LAST } }
}

struct Rec { pending_key: bool }
macro_rules! unsup { ($($f:ident($($t:ty),*);)*) => { $(fn $f(self $(, _: $t)*) -> Result<()> { Err(ERR) })* } }
impl<'a> ser::Serializer for &'a mut Rec {
    type Ok = (); type Error = Error;
    type SerializeSeq = ser::Impossible<(), Error>; type SerializeTuple = ser::Impossible<(), Error>;
    type SerializeTupleStruct = ser::Impossible<(), Error>; type SerializeTupleVariant = ser::Impossible<(), Error>;
    type SerializeMap = Self; type SerializeStruct = Self; type SerializeStructVariant = ser::Impossible<(), Error>;
    fn serialize_bool(self, v: bool) -> Result<()> { unsafe { let w = &mut verif::LAST; if w.n == 0 { return Err(ERR); } w.vals[w.n - 1] = Value::Bool(v); } Ok(()) }
    fn serialize_i64(self, v: i64) -> Result<()> { unsafe { let w = &mut verif::LAST; if w.n == 0 { return Err(ERR); } w.vals[w.n - 1] = Value::Number(v); } Ok(()) }
    fn serialize_unit(self) -> Result<()> { unsafe { let w = &mut verif::LAST; if w.n == 0 { return Err(ERR); } w.vals[w.n - 1] = Value::Null; } Ok(()) }
    fn serialize_u128(self, v: u128) -> Result<()> { unsafe { verif::LAST.id = Some(v); } Ok(()) }
    fn serialize_str(self, v: &str) -> Result<()> {
        if !self.pending_key { return Err(ERR); }
        unsafe { let w = &mut verif::LAST; if w.n >= verif::MAXE { return Err(ERR); }
            let b = v.as_bytes(); let l = if b.len() > 2 { 2 } else { b.len() };
            let mut i = 0; while i < l { w.keys[w.n][i] = b[i]; i += 1; }
            w.klen[w.n] = b.len(); w.n += 1; }
        Ok(())
    }
    unsup! { serialize_i8(i8); serialize_i16(i16); serialize_i32(i32); serialize_u8(u8); serialize_u16(u16); serialize_u32(u32); serialize_u64(u64); serialize_f32(f32); serialize_f64(f64); serialize_char(char); serialize_bytes(&[u8]); serialize_none(); serialize_unit_struct(&'static str); }
    fn serialize_some<T: ?Sized + Serialize>(self, v: &T) -> Result<()> { v.serialize(self) }
    fn serialize_unit_variant(self, _: &'static str, _: u32, _: &'static str) -> Result<()> { Err(ERR) }
    fn serialize_newtype_struct<T: ?Sized + Serialize>(self, _: &'static str, v: &T) -> Result<()> { v.serialize(self) }
    fn serialize_newtype_variant<T: ?Sized + Serialize>(self, _: &'static str, _: u32, _: &'static str, _: &T) -> Result<()> { Err(ERR) }
    fn serialize_seq(self, _: Option<usize>) -> Result<Self::SerializeSeq> { Err(ERR) }
    fn serialize_tuple(self, _: usize) -> Result<Self::SerializeTuple> { Err(ERR) }
    fn serialize_tuple_struct(self, _: &'static str, _: usize) -> Result<Self::SerializeTupleStruct> { Err(ERR) }
    fn serialize_tuple_variant(self, _: &'static str, _: u32, _: &'static str, _: usize) -> Result<Self::SerializeTupleVariant> { Err(ERR) }
    fn serialize_map(self, _: Option<usize>) -> Result<Self::SerializeMap> { Ok(self) }
    fn serialize_struct(self, _: &'static str, _: usize) -> Result<Self::SerializeStruct> { Ok(self) }
    fn serialize_struct_variant(self, _: &'static str, _: u32, _: &'static str, _: usize) -> Result<Self::SerializeStructVariant> { Err(ERR) }
    fn is_human_readable(&self) -> bool { false }
}
impl<'a> ser::SerializeMap for &'a mut Rec {
    type Ok = (); type Error = Error;
    fn serialize_key<T: ?Sized + Serialize>(&mut self, k: &T) -> Result<()> { self.pending_key = true; let r = k.serialize(&mut **self); self.pending_key = false; r }
    fn serialize_value<T: ?Sized + Serialize>(&mut self, v: &T) -> Result<()> { v.serialize(&mut **self) }
    fn end(self) -> Result<()> { Ok(()) }
}
impl<'a> ser::SerializeStruct for &'a mut Rec {
    type Ok = (); type Error = Error;
    fn serialize_field<T: ?Sized + Serialize>(&mut self, _k: &'static str, v: &T) -> Result<()> { v.serialize(&mut **self) }
    fn end(self) -> Result<()> { Ok(()) }
}
pub fn to_string<T: ?Sized + Serialize>(v: &T) -> Result<String> {
    unsafe { verif::LAST.id = None; verif::LAST.n = 0; }
    let mut r = Rec { pending_key: false };
    v.serialize(&mut r)?;
    Ok(String::new())
}
pub fn from_str<'a, T: serde::Deserialize<'a>>(_s: &'a str) -> Result<T> { Err(ERR) }
