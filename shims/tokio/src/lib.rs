//! Verification shim for `tokio::sync::Mutex`: an *uncontended* lock (sequential use only).
//! `lock()` is synchronous because the encoded sources are de-asynced. Contention, fairness and
//! poisoning are outside the claim; the property checked on top of this shim is sequential.
pub mod sync {
    use std::cell::UnsafeCell;
    use std::ops::{Deref, DerefMut};
    pub struct Mutex<T> {
        cell: UnsafeCell<T>,
    }
    unsafe impl<T: Send> Send for Mutex<T> {}
    unsafe impl<T: Send> Sync for Mutex<T> {}
    impl<T> Mutex<T> {
        pub fn new(t: T) -> Self {
            Mutex { cell: UnsafeCell::new(t) }
        }
        pub fn lock(&self) -> MutexGuard<'_, T> {
            MutexGuard { r: unsafe { &mut *self.cell.get() } }
        }
    }
    pub struct MutexGuard<'a, T> {
        r: &'a mut T,
    }
    impl<T> Deref for MutexGuard<'_, T> {
        type Target = T;
        fn deref(&self) -> &T {
            self.r
        }
    }
    impl<T> DerefMut for MutexGuard<'_, T> {
        fn deref_mut(&mut self) -> &mut T {
            self.r
        }
    }
}
