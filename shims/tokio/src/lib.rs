//! Verification shim for `tokio::sync::Mutex`. `lock()` is synchronous because the encoded sources are
//! de-asynced; the lock is always granted at once. Two uses:
//! * sequential harnesses: an uncontended lock;
//! * interference harnesses (C13, concurrency clause): a mutex only protects what happens between one
//!   `lock()` and the release of its guard. If an operation releases the lock and takes it again, another
//!   task may have run any complete operation in between. The shim models exactly that: the harness
//!   may install `verif::ON_RELOCK`, which is called with a pointer to the protected value at the
//!   second and every later acquisition and plays the other task (one arbitrary atomic operation).
//!   Fairness, wake-up order and poisoning are outside the claim.
pub mod verif {
    /// lock acquisitions since the harness last reset the counter
    pub static mut LOCKS: u32 = 0;
    /// the other task: runs at the 2nd, 3rd, ... acquisition, on the protected value
    pub static mut ON_RELOCK: Option<fn(*mut ())> = None;
}
pub mod sync {
    use std::cell::UnsafeCell;
    use std::ops::{Deref, DerefMut};
    pub struct Mutex<T> {
        cell: UnsafeCell<T>,
    }
    unsafe impl<T: Send> Send for Mutex<T> {}
    unsafe impl<T: Send> Sync for Mutex<T> {}
    impl<T> Mutex<T> {
        pub fn new(t: T) -> Self {
            Mutex { cell: UnsafeCell::new(t) }
        }
        pub fn lock(&self) -> MutexGuard<'_, T> {
            unsafe {
                super::verif::LOCKS += 1;
                if super::verif::LOCKS >= 2 {
                    if let Some(f) = super::verif::ON_RELOCK {
                        f(self.cell.get() as *mut ());
                    }
                }
            }
            MutexGuard { r: unsafe { &mut *self.cell.get() } }
        }
        pub fn try_lock(&self) -> Result<MutexGuard<'_, T>, TryLockError> {
            Ok(self.lock())
        }
        pub fn blocking_lock(&self) -> MutexGuard<'_, T> {
            self.lock()
        }
        pub fn get_mut(&mut self) -> &mut T {
            self.cell.get_mut()
        }
        pub fn into_inner(self) -> T {
            self.cell.into_inner()
        }
    }
    #[derive(Debug)]
    pub struct TryLockError;
    /// an uncontended reader-writer lock (same caveat as `Mutex`)
    pub struct RwLock<T> {
        inner: Mutex<T>,
    }
    impl<T> RwLock<T> {
        pub fn new(t: T) -> Self {
            RwLock { inner: Mutex::new(t) }
        }
        pub fn read(&self) -> MutexGuard<'_, T> {
            self.inner.lock()
        }
        pub fn write(&self) -> MutexGuard<'_, T> {
            self.inner.lock()
        }
    }
    pub struct MutexGuard<'a, T> {
        r: &'a mut T,
    }
    impl<T> Deref for MutexGuard<'_, T> {
        type Target = T;
        fn deref(&self) -> &T {
            self.r
        }
    }
    impl<T> DerefMut for MutexGuard<'_, T> {
        fn deref_mut(&mut self) -> &mut T {
            self.r
        }
    }
}
