//! Verification shim for `tokio::sync::Mutex`: an *uncontended* lock (sequential use only).
//! `lock()` is synchronous because the encoded sources are de-asynced. Contention, fairness and
//! poisoning are outside the claim; the property checked on top of this shim is sequential.
pub mod sync {
    use std::cell::UnsafeCell;
    use std::ops::{Deref, DerefMut};
    pub struct Mutex<T> {
        cell: UnsafeCell<T>,
    }
    unsafe impl<T: Send> Send for Mutex<T> {}
    unsafe impl<T: Send> Sync for Mutex<T> {}
    impl<T> Mutex<T> {
        pub fn new(t: T) -> Self {
            Mutex { cell: UnsafeCell::new(t) }
        }
        pub fn lock(&self) -> MutexGuard<'_, T> {
            MutexGuard { r: unsafe { &mut *self.cell.get() } }
        }
        pub fn try_lock(&self) -> Result<MutexGuard<'_, T>, TryLockError> {
            Ok(self.lock())
        }
        pub fn blocking_lock(&self) -> MutexGuard<'_, T> {
            self.lock()
        }
        pub fn get_mut(&mut self) -> &mut T {
            self.cell.get_mut()
        }
        pub fn into_inner(self) -> T {
            self.cell.into_inner()
        }
    }
    #[derive(Debug)]
    pub struct TryLockError;
    /// an uncontended reader-writer lock (same caveat as `Mutex`)
    pub struct RwLock<T> {
        inner: Mutex<T>,
    }
    impl<T> RwLock<T> {
        pub fn new(t: T) -> Self {
            RwLock { inner: Mutex::new(t) }
        }
        pub fn read(&self) -> MutexGuard<'_, T> {
            self.inner.lock()
        }
        pub fn write(&self) -> MutexGuard<'_, T> {
            self.inner.lock()
        }
    }
    pub struct MutexGuard<'a, T> {
        r: &'a mut T,
    }
    impl<T> Deref for MutexGuard<'_, T> {
        type Target = T;
        fn deref(&self) -> &T {
            self.r
        }
    }
    impl<T> DerefMut for MutexGuard<'_, T> {
        fn deref_mut(&mut self) -> &mut T {
            self.r
        }
    }
}
