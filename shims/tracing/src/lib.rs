//! Verification shim: logging has an empty body.
pub use tracing_attr_shim::instrument;
#[derive(Clone, Copy, Debug)] pub struct Level;
impl Level { pub const TRACE: Level = Level; pub const DEBUG: Level = Level; pub const INFO: Level = Level; pub const WARN: Level = Level; pub const ERROR: Level = Level; }
pub mod field { pub struct Empty; }
pub struct Span;
impl Span { pub fn current() -> Span { Span } pub fn record<V>(&self, _field: &str, _v: V) -> &Self { self } pub fn enter(&self) -> Entered { Entered } }
pub struct Entered;
#[macro_export] macro_rules! trace { ($($t:tt)*) => {{}}; }
#[macro_export] macro_rules! debug { ($($t:tt)*) => {{}}; }
#[macro_export] macro_rules! info { ($($t:tt)*) => {{}}; }
#[macro_export] macro_rules! warn { ($($t:tt)*) => {{}}; }
#[macro_export] macro_rules! error { ($($t:tt)*) => {{}}; }
#[macro_export] macro_rules! event { ($($t:tt)*) => {{}}; }
#[macro_export] macro_rules! info_span { ($($t:tt)*) => { $crate::Span }; }
#[macro_export] macro_rules! debug_span { ($($t:tt)*) => { $crate::Span }; }
