//! Verification shim: logging has an empty body.
pub use tracing_attr_shim::instrument;
#[derive(Clone, Copy, Debug)] pub struct Level;
impl Level { pub const TRACE: Level = Level; pub const DEBUG: Level = Level; pub const INFO: Level = Level; pub const WARN: Level = Level; pub const ERROR: Level = Level; }
pub mod field { pub struct Empty; }
pub struct Span;
impl Span { pub fn current() -> Span { Span } pub fn record<V>(&self, _field: &str, _v: V) -> &Self { self } pub fn enter(&self) -> Entered { Entered } }
pub struct Entered;
#[macro_export] macro_rules! trace { ($($t:tt)*) => {{}}; }
#[macro_export] macro_rules! debug { ($($t:tt)*) => {{}}; }
#[macro_export] macro_rules! info { ($($t:tt)*) => {{}}; }
#[macro_export] macro_rules! warn { ($($t:tt)*) => {{}}; }
#[macro_export] macro_rules! error { ($($t:tt)*) => {{}}; }
#[macro_export] macro_rules! event { ($($t:tt)*) => {{}}; }
#[macro_export] macro_rules! info_span { ($($t:tt)*) => { $crate::Span }; }
#[macro_export] macro_rules! debug_span { ($($t:tt)*) => { $crate::Span }; }
#[macro_export] macro_rules! trace_span { ($($t:tt)*) => { $crate::Span }; }
#[macro_export] macro_rules! warn_span { ($($t:tt)*) => { $crate::Span }; }
#[macro_export] macro_rules! error_span { ($($t:tt)*) => { $crate::Span }; }
#[macro_export] macro_rules! span { ($($t:tt)*) => { $crate::Span }; }
impl Span {
    pub fn none() -> Span { Span }
    pub fn in_scope<T, F: FnOnce() -> T>(&self, f: F) -> T { f() }
    pub fn entered(self) -> Entered { Entered }
    pub fn is_disabled(&self) -> bool { true }
}
