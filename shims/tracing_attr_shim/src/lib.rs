use proc_macro::TokenStream;
#[proc_macro_attribute] pub fn instrument(_a: TokenStream, item: TokenStream) -> TokenStream { item }
