//! Verification shim: a 128-bit opaque identifier; `new_v4` is an arbitrary fresh value
//! (a global counter in the high range so that it never collides with harness-chosen ids).
#[derive(Clone, Copy, PartialEq, Eq, Hash, PartialOrd, Ord, Debug)]
pub struct Uuid { hi: u64, lo: u64 }
static mut NEXT: u128 = 1000;
/// (native replay only) restart the fresh-id sequence
pub fn verif_reset() { unsafe { NEXT = 1000 } }
impl Uuid {
    pub fn new_v4() -> Self { unsafe { NEXT += 1; Uuid::from_u128(NEXT) } }
    pub const fn from_u128(v: u128) -> Self { Uuid { hi: (v >> 64) as u64, lo: v as u64 } }
    pub const fn nil() -> Self { Uuid { hi: 0, lo: 0 } }
    pub const fn is_nil(&self) -> bool { self.hi == 0 && self.lo == 0 }
    pub const fn max() -> Self { Uuid { hi: u64::MAX, lo: u64::MAX } }
    pub const fn as_u64_pair(&self) -> (u64, u64) { (self.hi, self.lo) }
    pub const fn from_u64_pair(hi: u64, lo: u64) -> Self { Uuid { hi, lo } }
    pub const fn as_u128(&self) -> u128 { ((self.hi as u128) << 64) | (self.lo as u128) }
}
impl serde::Serialize for Uuid { fn serialize<S: serde::Serializer>(&self, s: S) -> Result<S::Ok, S::Error> { s.serialize_u128(self.as_u128()) } }
impl<'de> serde::Deserialize<'de> for Uuid { fn deserialize<D: serde::Deserializer<'de>>(d: D) -> Result<Self, D::Error> { Ok(Uuid::from_u128(<u128 as serde::Deserialize>::deserialize(d)?)) } }
impl Default for Uuid { fn default() -> Self { Uuid::nil() } }
impl std::fmt::Display for Uuid { fn fmt(&self, f: &mut std::fmt::Formatter<'_>) -> std::fmt::Result { f.write_str("uuid") } }
