//! Verification shim: a 128-bit opaque identifier; `new_v4` is an arbitrary fresh value
//! (a global counter in the high range so that it never collides with harness-chosen ids).
#[derive(Clone, Copy, PartialEq, Eq, Hash, PartialOrd, Ord)]
pub struct Uuid { hi: u64, lo: u64 }
static mut NEXT: u128 = 1000;
/// (native replay only) restart the fresh-id sequence
pub fn verif_reset() { unsafe { NEXT = 1000 } }
impl Uuid {
    pub fn new_v4() -> Self { unsafe { NEXT += 1; Uuid::from_u128(NEXT) } }
    pub const fn from_u128(v: u128) -> Self { Uuid { hi: (v >> 64) as u64, lo: v as u64 } }
    pub const fn nil() -> Self { Uuid { hi: 0, lo: 0 } }
    pub const fn is_nil(&self) -> bool { self.hi == 0 && self.lo == 0 }
    pub const fn max() -> Self { Uuid { hi: u64::MAX, lo: u64::MAX } }
    pub fn as_u64_pair(&self) -> (u64, u64) { verif::touch(); (self.hi, self.lo) }
    pub const fn from_u64_pair(hi: u64, lo: u64) -> Self { Uuid { hi, lo } }
    pub fn as_u128(&self) -> u128 { verif::touch(); ((self.hi as u128) << 64) | (self.lo as u128) }
    pub fn hyphenated(self) -> Self { self }
    pub fn simple(self) -> Self { self }
    pub fn urn(self) -> Self { self }
    pub fn braced(self) -> Self { self }
}
impl serde::Serialize for Uuid { fn serialize<S: serde::Serializer>(&self, s: S) -> Result<S::Ok, S::Error> { verif::touch(); s.serialize_u128(((self.hi as u128) << 64) | (self.lo as u128)) } }
impl<'de> serde::Deserialize<'de> for Uuid { fn deserialize<D: serde::Deserializer<'de>>(d: D) -> Result<Self, D::Error> { Ok(Uuid::from_u128(<u128 as serde::Deserialize>::deserialize(d)?)) } }
impl Default for Uuid { fn default() -> Self { Uuid::nil() } }
/// Every way of rendering an id: the text is a marker character (U+0001) that no other shim or
/// first-party string contains, and the access is recorded while a harness has `FORMATTING` set
/// (C12, "the session id never appears in the Debug output of the session").
pub mod verif {
    pub static mut FORMATTING: bool = false;
    pub static mut LEAKED: bool = false;
    pub const MARKER: &str = "\u{1}";
    pub fn touch() {
        unsafe {
            if FORMATTING {
                LEAKED = true;
            }
        }
    }
}
macro_rules! render { ($($t:ident)*) => { $(
    impl std::fmt::$t for Uuid { fn fmt(&self, f: &mut std::fmt::Formatter<'_>) -> std::fmt::Result { verif::touch(); f.write_str(verif::MARKER) } }
)* } }
render!(Display Debug LowerHex UpperHex);
