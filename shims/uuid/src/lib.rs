//! Verification shim: a 128-bit opaque identifier; `new_v4` is an arbitrary fresh value
//! (a global counter in the high range so that it never collides with harness-chosen ids).
#[derive(Clone, Copy, PartialEq, Eq, Hash, PartialOrd, Ord, Debug)]
pub struct Uuid { hi: u64, lo: u64 }
static mut NEXT: u128 = 1000;
/// (native replay only) restart the fresh-id sequence
pub fn verif_reset() { unsafe { NEXT = 1000 } }
impl Uuid {
    pub fn new_v4() -> Self { unsafe { NEXT += 1; Uuid::from_u128(NEXT) } }
    pub const fn from_u128(v: u128) -> Self { Uuid { hi: (v >> 64) as u64, lo: v as u64 } }
    pub const fn as_u128(&self) -> u128 { ((self.hi as u128) << 64) | (self.lo as u128) }
}
impl serde::Serialize for Uuid { fn serialize<S: serde::Serializer>(&self, s: S) -> Result<S::Ok, S::Error> { s.serialize_u128(self.as_u128()) } }
impl<'de> serde::Deserialize<'de> for Uuid { fn deserialize<D: serde::Deserializer<'de>>(d: D) -> Result<Self, D::Error> { Ok(Uuid::from_u128(<u128 as serde::Deserialize>::deserialize(d)?)) } }
