//! Verification-only stand-in for `std::collections::HashMap`: a fixed-capacity, heap-free slot
//! array with the subset of the `HashMap` API used by the session crates. It is a finite map
//! with value semantics; hashing, iteration order and growth are outside the claim.
//!
//! Representation notes (both are about the model checker, not about the map contract):
//! * occupancy is an explicit `bool` per slot and the entries live in `MaybeUninit`: a
//!   niche-encoded `Option<(K, V)>` slot assigned through `slot = None` inside an enum variant is
//!   mis-modelled by Kani 0.68/CBMC 6.11 (the write is lost; minimal reproduction in DESIGN.md);
//! * keys and values are never dropped and are copied bitwise: harness keys are borrowed
//!   `&'static str` or strings that are leaked anyway, values are `Copy` scalars or records whose
//!   leak is irrelevant to a bounded run. This keeps `String` drop glue out of every slot update.
use std::borrow::Borrow;
use std::mem::MaybeUninit;

pub const CAP: usize = 2;

pub struct HashMap<K, V> {
    last: usize,
    used: [bool; CAP],
    keys: [MaybeUninit<K>; CAP],
    vals: [MaybeUninit<V>; CAP],
}

impl<K, V> Clone for HashMap<K, V> {
    /// Slot-wise bitwise copy of the occupied slots (keys and values are never dropped, so a bitwise
    /// copy is a clone for the purposes of a bounded run; typed element reads, not a whole-struct
    /// `ptr::read` over the `MaybeUninit` unions).
    fn clone(&self) -> Self {
        let mut m = Self::default();
        m.last = self.last;
        let mut i = 0;
        while i < CAP {
            if self.used[i] {
                m.used[i] = true;
                unsafe {
                    m.keys[i].write(std::ptr::read(self.keys[i].as_ptr()));
                    m.vals[i].write(std::ptr::read(self.vals[i].as_ptr()));
                }
            }
            i += 1;
        }
        m
    }
}
impl<K, V> std::fmt::Debug for HashMap<K, V> {
    fn fmt(&self, _f: &mut std::fmt::Formatter<'_>) -> std::fmt::Result {
        Ok(())
    }
}
impl<K, V> Default for HashMap<K, V> {
    fn default() -> Self {
        Self {
            last: 0,
            used: [false; CAP],
            keys: [MaybeUninit::zeroed(), MaybeUninit::zeroed()],
            vals: [MaybeUninit::zeroed(), MaybeUninit::zeroed()],
        }
    }
}

impl<K, V> HashMap<K, V> {
    pub fn new() -> Self {
        Self::default()
    }
    pub fn is_empty(&self) -> bool {
        !self.used[0] && !self.used[1]
    }
    pub fn len(&self) -> usize {
        self.used[0] as usize + self.used[1] as usize
    }
    pub fn clear(&mut self) {
        self.used[0] = false;
        self.used[1] = false;
    }
    fn last_inserted(&mut self) -> &mut V {
        let i = self.last;
        unsafe { self.vals[i].assume_init_mut() }
    }
    fn key(&self, i: usize) -> &K {
        unsafe { self.keys[i].assume_init_ref() }
    }
    fn val(&self, i: usize) -> &V {
        unsafe { self.vals[i].assume_init_ref() }
    }
    fn find<Q: ?Sized + Eq>(&self, k: &Q) -> Option<usize>
    where
        K: Borrow<Q>,
    {
        let mut i = 0;
        while i < CAP {
            if self.used[i] && self.key(i).borrow() == k {
                return Some(i);
            }
            i += 1;
        }
        None
    }
    pub fn get<Q: ?Sized + Eq>(&self, k: &Q) -> Option<&V>
    where
        K: Borrow<Q>,
    {
        match self.find(k) {
            Some(i) => Some(self.val(i)),
            None => None,
        }
    }
    pub fn contains_key<Q: ?Sized + Eq>(&self, k: &Q) -> bool
    where
        K: Borrow<Q>,
    {
        self.find(k).is_some()
    }
    pub fn get_mut<Q: ?Sized + Eq>(&mut self, k: &Q) -> Option<&mut V>
    where
        K: Borrow<Q>,
    {
        match self.find(k) {
            Some(i) => Some(unsafe { self.vals[i].assume_init_mut() }),
            None => None,
        }
    }
    pub fn insert(&mut self, k: K, v: V) -> Option<V>
    where
        K: Eq,
    {
        if let Some(i) = self.find(&k) {
            let old = unsafe { self.vals[i].assume_init_read() };
            self.vals[i].write(v);
            std::mem::forget(k);
            return Some(old);
        }
        let mut i = 0;
        while i < CAP {
            if !self.used[i] {
                self.used[i] = true;
                self.last = i;
                self.keys[i].write(k);
                self.vals[i].write(v);
                return None;
            }
            i += 1;
        }
        panic!("verification map is full (more distinct keys than the stated bound)")
    }
    pub fn remove<Q: ?Sized + Eq>(&mut self, k: &Q) -> Option<V>
    where
        K: Borrow<Q>,
    {
        match self.find(k) {
            Some(i) => {
                self.used[i] = false;
                Some(unsafe { self.vals[i].assume_init_read() })
            }
            None => None,
        }
    }
    /// Verification-only constructor: fill the slots directly (no key comparisons).
    /// The caller guarantees that the keys are distinct.
    pub fn from_slots(e: [Option<(K, V)>; CAP]) -> Self {
        let mut m = Self::default();
        let [e0, e1] = e;
        if let Some((k, v)) = e0 {
            m.used[0] = true;
            m.keys[0].write(k);
            m.vals[0].write(v);
        }
        if let Some((k, v)) = e1 {
            m.used[1] = true;
            m.keys[1].write(k);
            m.vals[1].write(v);
        }
        m
    }
    /// `HashMap::entry` for the handful of combinators code usually chains on it.
    pub fn entry(&mut self, k: K) -> Entry<'_, K, V>
    where
        K: Eq,
    {
        match self.find(&k) {
            Some(at) => Entry::Occupied(OccupiedEntry { map: self, key: k, at }),
            None => Entry::Vacant(VacantEntry { map: self, key: k }),
        }
    }
    pub fn with_capacity(_n: usize) -> Self {
        Self::default()
    }
    pub fn remove_entry<Q: ?Sized + Eq>(&mut self, k: &Q) -> Option<(K, V)>
    where
        K: Borrow<Q>,
    {
        match self.find(k) {
            Some(i) => {
                self.used[i] = false;
                Some(unsafe { (self.keys[i].assume_init_read(), self.vals[i].assume_init_read()) })
            }
            None => None,
        }
    }
    pub fn get_key_value<Q: ?Sized + Eq>(&self, k: &Q) -> Option<(&K, &V)>
    where
        K: Borrow<Q>,
    {
        match self.find(k) {
            Some(i) => Some((self.key(i), self.val(i))),
            None => None,
        }
    }
    pub fn retain<F: FnMut(&K, &mut V) -> bool>(&mut self, mut f: F) {
        let mut i = 0;
        while i < CAP {
            if self.used[i] {
                let keep = unsafe { f(self.keys[i].assume_init_ref(), self.vals[i].assume_init_mut()) };
                if !keep {
                    self.used[i] = false;
                }
            }
            i += 1;
        }
    }
    pub fn keys(&self) -> impl Iterator<Item = &K> {
        self.iter().map(|(k, _)| k)
    }
    pub fn values(&self) -> impl Iterator<Item = &V> {
        self.iter().map(|(_, v)| v)
    }
    pub fn iter_mut(&mut self) -> impl Iterator<Item = (&K, &mut V)> {
        let used = self.used;
        self.keys.iter().zip(self.vals.iter_mut()).enumerate().filter(move |(i, _)| used[*i]).map(|(_, (k, v))| unsafe { (k.assume_init_ref(), v.assume_init_mut()) })
    }
    pub fn values_mut(&mut self) -> impl Iterator<Item = &mut V> {
        self.iter_mut().map(|(_, v)| v)
    }
    pub fn extend<I: IntoIterator<Item = (K, V)>>(&mut self, it: I)
    where
        K: Eq,
    {
        for (k, v) in it {
            self.insert(k, v);
        }
    }
    /// (slot 0, slot 1) as options - a loop-free way to visit every entry.
    pub fn entries(&self) -> [Option<(&K, &V)>; CAP] {
        [
            if self.used[0] { Some((self.key(0), self.val(0))) } else { None },
            if self.used[1] { Some((self.key(1), self.val(1))) } else { None },
        ]
    }
    pub fn iter(&self) -> impl Iterator<Item = (&K, &V)> {
        self.entries().into_iter().flatten()
    }
}

impl<'a, K, V> IntoIterator for &'a HashMap<K, V> {
    type Item = (&'a K, &'a V);
    type IntoIter = std::iter::Flatten<std::array::IntoIter<Option<(&'a K, &'a V)>, CAP>>;
    fn into_iter(self) -> Self::IntoIter {
        self.entries().into_iter().flatten()
    }
}
impl<K, V> IntoIterator for HashMap<K, V> {
    type Item = (K, V);
    type IntoIter = std::iter::Flatten<std::array::IntoIter<Option<(K, V)>, CAP>>;
    fn into_iter(self) -> Self::IntoIter {
        let e0 = if self.used[0] { Some(unsafe { (self.keys[0].assume_init_read(), self.vals[0].assume_init_read()) }) } else { None };
        let e1 = if self.used[1] { Some(unsafe { (self.keys[1].assume_init_read(), self.vals[1].assume_init_read()) }) } else { None };
        [e0, e1].into_iter().flatten()
    }
}
impl<K: Eq, V> FromIterator<(K, V)> for HashMap<K, V> {
    fn from_iter<I: IntoIterator<Item = (K, V)>>(it: I) -> Self {
        let mut m = Self::default();
        m.extend(it);
        m
    }
}

/// `std::collections::hash_map::Entry`, with the variants code may match on.
pub enum Entry<'a, K, V> {
    Occupied(OccupiedEntry<'a, K, V>),
    Vacant(VacantEntry<'a, K, V>),
}
pub struct OccupiedEntry<'a, K, V> {
    map: &'a mut HashMap<K, V>,
    key: K,
    at: usize,
}
pub struct VacantEntry<'a, K, V> {
    map: &'a mut HashMap<K, V>,
    key: K,
}
impl<'a, K: Eq, V> OccupiedEntry<'a, K, V> {
    pub fn key(&self) -> &K {
        &self.key
    }
    pub fn get(&self) -> &V {
        self.map.val(self.at)
    }
    pub fn get_mut(&mut self) -> &mut V {
        unsafe { self.map.vals[self.at].assume_init_mut() }
    }
    pub fn into_mut(self) -> &'a mut V {
        std::mem::forget(self.key);
        unsafe { self.map.vals[self.at].assume_init_mut() }
    }
    pub fn insert(&mut self, v: V) -> V {
        let old = unsafe { self.map.vals[self.at].assume_init_read() };
        self.map.vals[self.at].write(v);
        old
    }
    pub fn remove(self) -> V {
        std::mem::forget(self.key);
        self.map.used[self.at] = false;
        unsafe { self.map.vals[self.at].assume_init_read() }
    }
}
impl<'a, K: Eq, V> VacantEntry<'a, K, V> {
    pub fn key(&self) -> &K {
        &self.key
    }
    pub fn insert(self, v: V) -> &'a mut V {
        self.map.insert(self.key, v);
        self.map.last_inserted()
    }
}
impl<'a, K: Eq, V> Entry<'a, K, V> {
    pub fn or_insert_with<F: FnOnce() -> V>(self, f: F) -> &'a mut V {
        match self {
            Entry::Occupied(o) => o.into_mut(),
            Entry::Vacant(v) => v.insert(f()),
        }
    }
    pub fn or_insert(self, v: V) -> &'a mut V {
        self.or_insert_with(|| v)
    }
    pub fn or_default(self) -> &'a mut V
    where
        V: Default,
    {
        self.or_insert_with(V::default)
    }
    pub fn and_modify<F: FnOnce(&mut V)>(mut self, f: F) -> Self {
        if let Entry::Occupied(o) = &mut self {
            f(o.get_mut());
        }
        self
    }
    pub fn key(&self) -> &K {
        match self {
            Entry::Occupied(o) => o.key(),
            Entry::Vacant(v) => v.key(),
        }
    }
}

impl<K: Eq, V: PartialEq> PartialEq for HashMap<K, V> {
    fn eq(&self, other: &Self) -> bool {
        if self.len() != other.len() {
            return false;
        }
        let mut i = 0;
        while i < CAP {
            if self.used[i] && other.get(self.key(i)) != Some(self.val(i)) {
                return false;
            }
            i += 1;
        }
        true
    }
}
impl<K: Eq, V: Eq> Eq for HashMap<K, V> {}

impl<K: serde::Serialize, V: serde::Serialize> serde::Serialize for HashMap<K, V> {
    fn serialize<S: serde::Serializer>(&self, s: S) -> Result<S::Ok, S::Error> {
        use serde::ser::SerializeMap;
        let mut m = s.serialize_map(Some(self.len()))?;
        let mut i = 0;
        while i < CAP {
            if self.used[i] {
                m.serialize_entry(self.key(i), self.val(i))?;
            }
            i += 1;
        }
        m.end()
    }
}
impl<'de, K: Eq + serde::Deserialize<'de>, V: serde::Deserialize<'de>> serde::Deserialize<'de> for HashMap<K, V> {
    fn deserialize<D: serde::Deserializer<'de>>(d: D) -> Result<Self, D::Error> {
        struct Vis<K, V>(std::marker::PhantomData<(K, V)>);
        impl<'de, K: Eq + serde::Deserialize<'de>, V: serde::Deserialize<'de>> serde::de::Visitor<'de> for Vis<K, V> {
            type Value = HashMap<K, V>;
            fn expecting(&self, f: &mut std::fmt::Formatter) -> std::fmt::Result {
                f.write_str("a map")
            }
            fn visit_map<A: serde::de::MapAccess<'de>>(self, mut a: A) -> Result<Self::Value, A::Error> {
                let mut m = HashMap::new();
                while let Some((k, v)) = a.next_entry()? {
                    m.insert(k, v);
                }
                Ok(m)
            }
        }
        d.deserialize_map(Vis(std::marker::PhantomData))
    }
}
