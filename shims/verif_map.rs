//! Verification-only stand-in for `std::collections::HashMap`: a fixed-capacity, heap-free slot
//! array with the subset of the `HashMap` API used by the session crates. It is a finite map
//! with value semantics; hashing, iteration order and growth are outside the claim.
//!
//! Representation notes (both are about the model checker, not about the map contract):
//! * occupancy is an explicit `bool` per slot and the entries live in `MaybeUninit`: a
//!   niche-encoded `Option<(K, V)>` slot assigned through `slot = None` inside an enum variant is
//!   mis-modelled by Kani 0.68/CBMC 6.11 (the write is lost; minimal reproduction in DESIGN.md);
//! * keys and values are never dropped and are copied bitwise: harness keys are borrowed
//!   `&'static str` or strings that are leaked anyway, values are `Copy` scalars or records whose
//!   leak is irrelevant to a bounded run. This keeps `String` drop glue out of every slot update.
use std::borrow::Borrow;
use std::mem::MaybeUninit;

pub const CAP: usize = 2;

pub struct HashMap<K, V> {
    used: [bool; CAP],
    keys: [MaybeUninit<K>; CAP],
    vals: [MaybeUninit<V>; CAP],
}

impl<K: Clone, V: Clone> Clone for HashMap<K, V> {
    /// Slot-wise clone through the element types' own `Clone` (a bitwise `ptr::read` of slots that
    /// live in a heap object is mis-modelled by CBMC when the content is symbolic).
    fn clone(&self) -> Self {
        let mut m = Self::default();
        let mut i = 0;
        while i < CAP {
            if self.used[i] {
                m.used[i] = true;
                m.keys[i].write(self.key(i).clone());
                m.vals[i].write(self.val(i).clone());
            }
            i += 1;
        }
        m
    }
}
impl<K, V> std::fmt::Debug for HashMap<K, V> {
    fn fmt(&self, _f: &mut std::fmt::Formatter<'_>) -> std::fmt::Result {
        Ok(())
    }
}
impl<K, V> Default for HashMap<K, V> {
    fn default() -> Self {
        Self {
            used: [false; CAP],
            keys: [MaybeUninit::zeroed(), MaybeUninit::zeroed()],
            vals: [MaybeUninit::zeroed(), MaybeUninit::zeroed()],
        }
    }
}

impl<K, V> HashMap<K, V> {
    pub fn new() -> Self {
        Self::default()
    }
    pub fn is_empty(&self) -> bool {
        !self.used[0] && !self.used[1]
    }
    pub fn len(&self) -> usize {
        self.used[0] as usize + self.used[1] as usize
    }
    pub fn clear(&mut self) {
        self.used[0] = false;
        self.used[1] = false;
    }
    fn key(&self, i: usize) -> &K {
        unsafe { self.keys[i].assume_init_ref() }
    }
    fn val(&self, i: usize) -> &V {
        unsafe { self.vals[i].assume_init_ref() }
    }
    fn find<Q: ?Sized + Eq>(&self, k: &Q) -> Option<usize>
    where
        K: Borrow<Q>,
    {
        let mut i = 0;
        while i < CAP {
            if self.used[i] && self.key(i).borrow() == k {
                return Some(i);
            }
            i += 1;
        }
        None
    }
    pub fn get<Q: ?Sized + Eq>(&self, k: &Q) -> Option<&V>
    where
        K: Borrow<Q>,
    {
        match self.find(k) {
            Some(i) => Some(self.val(i)),
            None => None,
        }
    }
    pub fn contains_key<Q: ?Sized + Eq>(&self, k: &Q) -> bool
    where
        K: Borrow<Q>,
    {
        self.find(k).is_some()
    }
    pub fn get_mut<Q: ?Sized + Eq>(&mut self, k: &Q) -> Option<&mut V>
    where
        K: Borrow<Q>,
    {
        match self.find(k) {
            Some(i) => Some(unsafe { self.vals[i].assume_init_mut() }),
            None => None,
        }
    }
    pub fn insert(&mut self, k: K, v: V) -> Option<V>
    where
        K: Eq,
    {
        if let Some(i) = self.find(&k) {
            let old = unsafe { self.vals[i].assume_init_read() };
            self.vals[i].write(v);
            std::mem::forget(k);
            return Some(old);
        }
        let mut i = 0;
        while i < CAP {
            if !self.used[i] {
                self.used[i] = true;
                self.keys[i].write(k);
                self.vals[i].write(v);
                return None;
            }
            i += 1;
        }
        panic!("verification map is full (more distinct keys than the stated bound)")
    }
    pub fn remove<Q: ?Sized + Eq>(&mut self, k: &Q) -> Option<V>
    where
        K: Borrow<Q>,
    {
        match self.find(k) {
            Some(i) => {
                self.used[i] = false;
                Some(unsafe { self.vals[i].assume_init_read() })
            }
            None => None,
        }
    }
    /// Verification-only constructor: fill the slots directly (no key comparisons).
    /// The caller guarantees that the keys are distinct.
    pub fn from_slots(e: [Option<(K, V)>; CAP]) -> Self {
        let mut m = Self::default();
        let [e0, e1] = e;
        if let Some((k, v)) = e0 {
            m.used[0] = true;
            m.keys[0].write(k);
            m.vals[0].write(v);
        }
        if let Some((k, v)) = e1 {
            m.used[1] = true;
            m.keys[1].write(k);
            m.vals[1].write(v);
        }
        m
    }
    /// (slot 0, slot 1) as options - a loop-free way to visit every entry.
    pub fn entries(&self) -> [Option<(&K, &V)>; CAP] {
        [
            if self.used[0] { Some((self.key(0), self.val(0))) } else { None },
            if self.used[1] { Some((self.key(1), self.val(1))) } else { None },
        ]
    }
    pub fn iter(&self) -> impl Iterator<Item = (&K, &V)> {
        self.entries().into_iter().flatten()
    }
}

impl<K: Eq, V: PartialEq> PartialEq for HashMap<K, V> {
    fn eq(&self, other: &Self) -> bool {
        if self.len() != other.len() {
            return false;
        }
        let mut i = 0;
        while i < CAP {
            if self.used[i] && other.get(self.key(i)) != Some(self.val(i)) {
                return false;
            }
            i += 1;
        }
        true
    }
}
impl<K: Eq, V: Eq> Eq for HashMap<K, V> {}

impl<K: serde::Serialize, V: serde::Serialize> serde::Serialize for HashMap<K, V> {
    fn serialize<S: serde::Serializer>(&self, s: S) -> Result<S::Ok, S::Error> {
        use serde::ser::SerializeMap;
        let mut m = s.serialize_map(Some(self.len()))?;
        let mut i = 0;
        while i < CAP {
            if self.used[i] {
                m.serialize_entry(self.key(i), self.val(i))?;
            }
            i += 1;
        }
        m.end()
    }
}
impl<'de, K: Eq + serde::Deserialize<'de>, V: serde::Deserialize<'de>> serde::Deserialize<'de> for HashMap<K, V> {
    fn deserialize<D: serde::Deserializer<'de>>(d: D) -> Result<Self, D::Error> {
        struct Vis<K, V>(std::marker::PhantomData<(K, V)>);
        impl<'de, K: Eq + serde::Deserialize<'de>, V: serde::Deserialize<'de>> serde::de::Visitor<'de> for Vis<K, V> {
            type Value = HashMap<K, V>;
            fn expecting(&self, f: &mut std::fmt::Formatter) -> std::fmt::Result {
                f.write_str("a map")
            }
            fn visit_map<A: serde::de::MapAccess<'de>>(self, mut a: A) -> Result<Self::Value, A::Error> {
                let mut m = HashMap::new();
                while let Some((k, v)) = a.next_entry()? {
                    m.insert(k, v);
                }
                Ok(m)
            }
        }
        d.deserialize_map(Vis(std::marker::PhantomData))
    }
}
