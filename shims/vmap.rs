//! Verification-only stand-in for `std::collections::HashMap`: a fixed-capacity,
//! heap-free slot array with the subset of the `HashMap` API used by this crate.
use std::borrow::Borrow;
use std::mem::ManuallyDrop;

pub const CAP: usize = 2;

/// Keys are never dropped nor deep-cloned: harnesses only ever pass borrowed `&'static str`
/// keys (a stated precondition), so a bitwise copy is exact and keeps CBMC away from
/// `String` allocation paths it would otherwise have to consider for every slot.
pub struct HashMap<K, V> {
    slots: [Option<(ManuallyDrop<K>, V)>; CAP],
}
impl<K, V: Copy> Clone for HashMap<K, V> {
    fn clone(&self) -> Self { unsafe { std::ptr::read(self) } }
}
impl<K, V> std::fmt::Debug for HashMap<K, V> {
    fn fmt(&self, _f: &mut std::fmt::Formatter<'_>) -> std::fmt::Result { Ok(()) }
}

impl<K, V> Default for HashMap<K, V> {
    fn default() -> Self {
        Self { slots: [None, None] }
    }
}

impl<K: Eq, V> HashMap<K, V> {
    pub fn new() -> Self {
        Self::default()
    }
    pub fn is_empty(&self) -> bool {
        self.slots[0].is_none() && self.slots[1].is_none()
    }
    pub fn len(&self) -> usize {
        self.slots[0].is_some() as usize + self.slots[1].is_some() as usize
    }
    pub fn clear(&mut self) {
        self.slots[0] = None;
        self.slots[1] = None;
    }
    pub fn get<Q: ?Sized + Eq>(&self, k: &Q) -> Option<&V>
    where
        K: Borrow<Q>,
    {
        let mut i = 0;
        while i < CAP {
            if let Some((kk, v)) = &self.slots[i] {
                if (**kk).borrow() == k {
                    return Some(v);
                }
            }
            i += 1;
        }
        None
    }
    pub fn insert(&mut self, k: K, v: V) -> Option<V> {
        let mut i = 0;
        while i < CAP {
            if let Some((kk, vv)) = &mut self.slots[i] {
                if **kk == k {
                    return Some(std::mem::replace(vv, v));
                }
            }
            i += 1;
        }
        let mut i = 0;
        while i < CAP {
            if self.slots[i].is_none() {
                self.slots[i] = Some((ManuallyDrop::new(k), v));
                return None;
            }
            i += 1;
        }
        panic!("verification map is full")
    }
    pub fn remove<Q: ?Sized + Eq>(&mut self, k: &Q) -> Option<V>
    where
        K: Borrow<Q>,
    {
        let mut i = 0;
        while i < CAP {
            let hit = match &self.slots[i] {
                Some((kk, _)) => (**kk).borrow() == k,
                None => false,
            };
            if hit {
                return self.slots[i].take().map(|(_, v)| v);
            }
            i += 1;
        }
        None
    }
    pub fn iter(&self) -> impl Iterator<Item = (&K, &V)> {
        self.slots.iter().filter_map(|s| s.as_ref().map(|(k, v)| (&**k, v)))
    }
}

impl<K: Eq, V: PartialEq> PartialEq for HashMap<K, V> {
    fn eq(&self, other: &Self) -> bool {
        if self.len() != other.len() {
            return false;
        }
        self.iter().all(|(k, v)| other.get(k) == Some(v))
    }
}
impl<K: Eq, V: Eq> Eq for HashMap<K, V> {}

impl<K: serde::Serialize, V: serde::Serialize> serde::Serialize for HashMap<K, V> {
    fn serialize<S: serde::Serializer>(&self, s: S) -> Result<S::Ok, S::Error> {
        use serde::ser::SerializeMap;
        let mut m = s.serialize_map(None)?;
        for slot in &self.slots {
            if let Some((k, v)) = slot {
                m.serialize_entry(&**k, v)?;
            }
        }
        m.end()
    }
}
impl<'de, K: Eq + serde::Deserialize<'de>, V: serde::Deserialize<'de>> serde::Deserialize<'de>
    for HashMap<K, V>
{
    fn deserialize<D: serde::Deserializer<'de>>(d: D) -> Result<Self, D::Error> {
        struct Vis<K, V>(std::marker::PhantomData<(K, V)>);
        impl<'de, K: Eq + serde::Deserialize<'de>, V: serde::Deserialize<'de>> serde::de::Visitor<'de>
            for Vis<K, V>
        {
            type Value = HashMap<K, V>;
            fn expecting(&self, f: &mut std::fmt::Formatter) -> std::fmt::Result {
                f.write_str("a map")
            }
            fn visit_map<A: serde::de::MapAccess<'de>>(self, mut a: A) -> Result<Self::Value, A::Error> {
                let mut m = HashMap::new();
                while let Some((k, v)) = a.next_entry()? {
                    m.insert(k, v);
                }
                Ok(m)
            }
        }
        d.deserialize_map(Vis(std::marker::PhantomData))
    }
}
